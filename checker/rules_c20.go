package main

import (
	"fmt"
	"go/token"
	"strings"

	"golang.org/x/tools/go/ssa"
)

// C20 — Concurrent image pulls are de-duplicated without losing or sharing results.

const (
	c20RM        = pkgPkgImport + ".RequestManager"
	c20InFlight  = "inFlight"
	c20Lock      = c20RM + ".inFlightLock"
	c20RawPkg    = pkgPkgTypes + ".RawPackage"
	c20RawPkgDC  = "(*" + pkgPkgTypes + ".RawPackage).DeepCopy"
	c20FilesDC   = "(" + pkgPkgTypes + ".Files).DeepCopy"
	c20PullField = "pullImage"
)

var c20Guarded = []GuardedField{{Type: c20RM, Field: c20InFlight, Mutex: "inFlightLock"}}

func init() {
	register(&Property{
		ID: "C20",
		Explanation: "Decides the structural core of C20 on every path of the current source of packageimport.RequestManager: (R1) every access of RequestManager.inFlight and of the " +
			"receiver slices stored in it happens with inFlightLock of the same instance held; (R2) the pull function is only ever called from a goroutine that is started under " +
			"`_, ok := inFlight[image]; !ok`, and check, `go` and the registration of the caller's receiver under the same image key lie in one critical section; (R3) the registering " +
			"function returns the very channel it appended, its callers receive from it exactly once and return what they received, the broadcast sends once per element of " +
			"inFlight[image] without early exit, and the pull goroutine always ends in that broadcast with the pull's own results; (R4) every channel stored in inFlight is made with a " +
			"constant capacity >= 1, so the single send per channel cannot block under the lock; (R5) the package sent to each receiver is nil only when the pulled package is nil and " +
			"otherwise a DeepCopy made inside the loop, and DeepCopy allocates a new map and a new byte slice per file; (R6) the image's entry is deleted on every path after the " +
			"broadcast, in the same critical section. Interleavings themselves are not explored.",
		NotDecided: []string{
			"interleavings: lost wake-ups are excluded only to the extent that registration (R2) and broadcast+cleanup (R6) are each one critical section of the same mutex",
			"goroutine leaks / never-answered receivers when the pull function panics or never returns",
			"that interface/dynamic callees do not release the caller's mutex",
			"contents of the pulled package (registry behaviour)",
		},
		Technique: "SSA lockset dataflow (A7) + guard-dominance facts (A1) + must-follow/must-precede and loop-shape checks (A2) + value identity (A3) over go statements, channel makes, sends and receives",
		Rules: []Rule{
			{ID: "C20.R1", Min: 11, Run: c20r1, Statement: "every access of RequestManager.inFlight (and of the receiver slices in it) is made with inFlightLock of the same instance held"},
			{ID: "C20.R2", Min: 2, Run: c20r2, Statement: "a pull is started only when no pull for the image is in flight, and check, start and registration of the receiver happen in one critical section"},
			{ID: "C20.R3", Min: 4, Run: c20r3, Statement: "every caller gets exactly one response: the registered channel is the returned one, it is received from once, the broadcast sends once per registered receiver, and the pull goroutine always broadcasts its own result"},
			{ID: "C20.R4", Min: 1, Run: c20r4, Statement: "receiver channels stored in inFlight are buffered with a constant capacity >= 1 (the sender never blocks under the lock)"},
			{ID: "C20.R5", Min: 3, Run: c20r5, Statement: "each receiver gets a private copy: a DeepCopy made per receiver inside the broadcast loop (nil only if the pulled package is nil); DeepCopy copies the file map and every byte slice"},
			{ID: "C20.R6", Min: 1, Run: c20r6, Statement: "after the broadcast the image's inFlight entry is deleted on every path, within the same critical section, so that a later request starts a fresh pull"},
		},
	})
}

func c20IsInFlight(v ssa.Value) (ssa.Value, bool) { return guardedFieldLoad(v, c20RM, c20InFlight) }

func c20r1(c *Ctx) {
	if !c12CheckGuardTable(c, c20Guarded) {
		return
	}
	for _, g := range c20Guarded {
		if checkLockDiscipline(c, g) == 0 {
			c.AnchorLost("accesses of " + g.Type + "." + g.Field)
		}
	}
}

// c20PullCalls: calls through the RequestManager.pullImage function field.
func c20PullCalls(fn *ssa.Function) []*ssa.Call {
	var out []*ssa.Call
	for _, call := range callsIn(fn) {
		if call.Common.IsInvoke() {
			continue
		}
		if _, ok := guardedFieldLoad(call.Common.Value, c20RM, c20PullField); ok {
			if ci, isCall := call.Instr.(*ssa.Call); isCall {
				out = append(out, ci)
			} else {
				out = append(out, nil) // go/defer of the pull function itself
			}
		}
	}
	return out
}

// c20Registrations: `inFlight[k] = …` instructions of fn.
func c20Registrations(fn *ssa.Function) []*ssa.MapUpdate {
	var out []*ssa.MapUpdate
	for _, b := range fn.Blocks {
		for _, in := range b.Instrs {
			if mu, ok := in.(*ssa.MapUpdate); ok {
				if _, is := c20IsInFlight(mu.Map); is {
					out = append(out, mu)
				}
			}
		}
	}
	return out
}

// c20Broadcast describes a send to an element of inFlight[k].
type c20Broadcast struct {
	Send   *ssa.Send
	Fn     *ssa.Function
	Slice  ssa.Value   // inFlight[k]
	Lookup *ssa.Lookup // the lookup producing Slice
	Loop   *Loop
	Why    string // non-empty when the loop shape is not recognised
}

// c20Broadcasts finds all sends whose channel is an element of an inFlight slice.
func c20Broadcasts(p *Program) []c20Broadcast {
	var out []c20Broadcast
	for _, fn := range p.FuncsIn(pkgPkgImport) {
		for _, b := range fn.Blocks {
			for _, in := range b.Instrs {
				s, ok := in.(*ssa.Send)
				if !ok {
					continue
				}
				ch := p.c12Resolve(s.Chan)
				u, isLoad := ch.(*ssa.UnOp)
				if !isLoad || u.Op != token.MUL {
					continue
				}
				ia, isIA := u.X.(*ssa.IndexAddr)
				if !isIA {
					continue
				}
				lk, isLk := stripConv(ia.X).(*ssa.Lookup)
				if !isLk {
					continue
				}
				if _, is := c20IsInFlight(lk.X); !is {
					continue
				}
				bc := c20Broadcast{Send: s, Fn: fn, Slice: ia.X, Lookup: lk}
				bc.Loop, bc.Why = sliceRangeLoop(p, fn, ia)
				out = append(out, bc)
			}
		}
	}
	return out
}

// sliceRangeLoop recognises "ia indexes its slice with the induction variable of a loop that visits
// 0..len(slice)-1": index phi at the loop head starting at -1 (for-range) or 0 (classic), stepped by
// one on the back edge, compared `< len(slice)` in the loop head.
func sliceRangeLoop(p *Program, fn *ssa.Function, ia *ssa.IndexAddr) (*Loop, string) {
	l := innermostLoop(fn, ia.Block())
	if l == nil {
		return nil, "element is not accessed inside a loop"
	}
	ph, isPhi := stripIncrement(ia.Index).(*ssa.Phi)
	if !isPhi || ph.Block() != l.Head {
		return nil, "index is not the induction variable of the enclosing loop"
	}
	shifted := ia.Index != ssa.Value(ph) // index = phi+1 (for-range lowering)
	okInit, okStep := false, false
	for i, e := range ph.Edges {
		pred := l.Head.Preds[i]
		if l.Body[pred] {
			// back edge: phi+1
			if b, ok := e.(*ssa.BinOp); ok && b.Op == token.ADD && b.X == ssa.Value(ph) {
				if n, isC := constInt(b.Y); isC && n == 1 {
					okStep = true
					continue
				}
			}
			return nil, "induction variable is not stepped by one"
		}
		n, isC := constInt(e)
		if isC && (shifted && n == -1 || !shifted && n == 0) {
			okInit = true
		} else {
			return nil, "iteration does not start at the first element"
		}
	}
	if !okInit || !okStep {
		return nil, "loop shape not recognised"
	}
	iff, ok := l.Head.Instrs[len(l.Head.Instrs)-1].(*ssa.If)
	if !ok {
		return nil, "loop head has no bound test"
	}
	cmp, ok := iff.Cond.(*ssa.BinOp)
	if !ok || cmp.Op != token.LSS || cmp.X != ia.Index {
		return nil, "loop bound is not `index < len(slice)`"
	}
	lc, ok := cmp.Y.(*ssa.Call)
	if !ok {
		return nil, "loop bound is not len(slice)"
	}
	if bi, isB := lc.Call.Value.(*ssa.Builtin); !isB || bi.Name() != "len" || !p.sameValue(lc.Call.Args[0], ia.X) {
		return nil, "loop bound is not the length of the indexed slice"
	}
	if !l.Body[l.Head.Succs[0]] {
		return nil, "loop body is not entered on index < len"
	}
	return l, ""
}

func c20r2(c *Ctx) {
	p := c.P
	n := 0
	for _, fn := range p.productFuncs() {
		for _, pc := range c20PullCalls(fn) {
			n++
			var at ssa.Instruction
			if pc != nil {
				at = pc
			}
			o := c.Ob(fn, "pull", at, c.rule.Statement)
			o.Require("called from a goroutine started under F: _, ok := inFlight[image]", "lock held from the check over `go` to inFlight[image] = append(…)")
			if pc == nil {
				o.Unknown("the pull function is started directly with go/defer; image argument cannot be related to a registration")
				continue
			}
			if len(pc.Call.Args) < 4 {
				o.Unknown("unexpected pull signature")
				continue
			}
			image := pc.Call.Args[3]
			// every way this function starts must be a `go` statement
			type start struct {
				g     *ssa.Go
				image ssa.Value
			}
			var starts []start
			bad := ""
			if fn.Parent() != nil {
				for _, b := range fn.Parent().Blocks {
					for _, in := range b.Instrs {
						mc, ok := in.(*ssa.MakeClosure)
						if !ok || mc.Fn != ssa.Value(fn) {
							continue
						}
						for _, r := range referrersOf(mc) {
							switch x := r.(type) {
							case *ssa.DebugRef:
							case *ssa.Go:
								img, ok := p.translateClosureBase(fn, mc, x, image)
								if !ok {
									bad = "cannot relate the pulled image to a value at the go statement"
								}
								starts = append(starts, start{x, img})
							default:
								bad = "the pulling closure is not only started with `go` (used at " + p.IPos(r) + ")"
							}
						}
					}
				}
			} else {
				if why := p.mayBeCalledDynamically(fn); why != "" {
					bad = "pulling function " + why
				}
				for _, cs := range p.callersOf(fn) {
					g, isGo := cs.Instr.(*ssa.Go)
					if !isGo {
						bad = "pulling function is called synchronously at " + p.IPos(cs.Instr)
						continue
					}
					idx := paramIndex(fn, image)
					if idx < 0 || idx >= len(g.Call.Args) {
						bad = "cannot relate the pulled image to a value at the go statement"
						continue
					}
					starts = append(starts, start{g, g.Call.Args[idx]})
				}
			}
			if bad != "" {
				o.Fail("%s", bad)
				continue
			}
			if len(starts) == 0 {
				o.Fail("no go statement starts the pulling function")
				continue
			}
			var problems, notes []string
			for _, st := range starts {
				g := st.g
				gfn := g.Parent()
				lk := lookupFact(p.FactsAt(g.Block()), false, func(lk *ssa.Lookup) bool {
					_, is := c20IsInFlight(lk.X)
					return is && p.strictSame(lk.Index, st.image)
				})
				if lk == nil {
					problems = append(problems, fmt.Sprintf("go statement at %s is not dominated by `_, ok := inFlight[image]; !ok` for the pulled image: a second pull for an image already in flight can start", p.IPos(g)))
					continue
				}
				base, _ := c20IsInFlight(lk.X)
				for _, in := range between(lk, g) {
					if args, isDel := builtinCall(in, "delete"); isDel && len(args) == 2 {
						if _, is := c20IsInFlight(args[0]); is {
							problems = append(problems, "an inFlight entry is deleted between the check and the go statement at "+p.IPos(in))
						}
					}
				}
				if ok, why := p.LockHeld(lk, LockReq{Field: c20Lock, Write: true, Base: base}, 3); !ok {
					problems = append(problems, "in-flight check is not under the lock: "+why)
				}
				if ok, why := p.LockHeld(g, LockReq{Field: c20Lock, Write: true, Base: base}, 3); !ok {
					problems = append(problems, "pull is started outside the lock: "+why)
				}
				if ok, why := p.lockNotReleasedBetween(lk, g, c20Lock); !ok {
					problems = append(problems, "lock released between the in-flight check and the go statement: "+why)
				}
				// registration under the same key follows in the same critical section
				var reg *ssa.MapUpdate
				for _, mu := range c20Registrations(gfn) {
					if p.strictSame(mu.Key, st.image) {
						reg = mu
					}
				}
				switch {
				case reg == nil:
					problems = append(problems, "no inFlight[image] = … for the pulled image in the function that starts the pull")
				case !p.mustFollow(g, func(in ssa.Instruction) bool { return in == ssa.Instruction(reg) }, nil) &&
					!p.mustPrecede(g, func(in ssa.Instruction) bool { return in == ssa.Instruction(reg) }):
					problems = append(problems, "the caller's receiver is not registered on every path that starts the pull")
				default:
					first, second := ssa.Instruction(g), ssa.Instruction(reg)
					if !p.mustFollow(g, func(in ssa.Instruction) bool { return in == ssa.Instruction(reg) }, nil) {
						first, second = second, first
					}
					if ok, why := p.lockNotReleasedBetween(first, second, c20Lock); !ok {
						problems = append(problems, "lock released between starting the pull and registering the receiver (the response could be broadcast before the receiver is registered): "+why)
					}
					if ok, why := p.LockHeld(reg, LockReq{Field: c20Lock, Write: true, Base: base}, 3); !ok {
						problems = append(problems, "registration not under the lock: "+why)
					}
					notes = append(notes, "go at "+p.IPos(g)+" under !ok of "+p.describe(lk)+", registration at "+p.IPos(reg))
				}
			}
			if len(problems) == 0 {
				o.OK(notes...)
			} else {
				o.Fail("%s", strings.Join(problems, "; "))
			}
		}
	}
	if n == 0 {
		c.AnchorLost("call through RequestManager.pullImage")
	}
	// every registration has an in-flight check for its key in the same critical section
	for _, fn := range p.FuncsIn(pkgPkgImport) {
		for _, mu := range c20Registrations(fn) {
			o := c.Ob(fn, "registration", mu, "a receiver is registered in the critical section that decided whether a pull must be started for that image")
			var lk *ssa.Lookup
			for _, b := range fn.Blocks {
				for _, in := range b.Instrs {
					x, ok := in.(*ssa.Lookup)
					if !ok || !x.CommaOk {
						continue
					}
					if _, is := c20IsInFlight(x.X); is && p.strictSame(x.Index, mu.Key) {
						lk = x
					}
				}
			}
			switch {
			case lk == nil:
				o.Fail("no `_, ok := inFlight[image]` for the registered key in this function")
			case !p.mustPrecede(mu, func(in ssa.Instruction) bool { return in == ssa.Instruction(lk) }):
				o.Fail("the in-flight check does not precede the registration on every path")
			default:
				if ok, why := p.lockNotReleasedBetween(lk, mu, c20Lock); !ok {
					o.Fail("lock released between the in-flight check and the registration: %s", why)
				} else {
					o.OK()
				}
			}
		}
	}
}

// c20AppendedChans: mu.Value == append(inFlight[key], ch…): returns the appended elements.
func (p *Program) c20AppendedChans(mu *ssa.MapUpdate) ([]ssa.Value, string) {
	args, ok := builtinCall(asInstr(stripConv(mu.Value)), "append")
	if !ok || len(args) != 2 {
		return nil, "stored value is not append(inFlight[image], recv)"
	}
	lk, isLk := stripConv(args[0]).(*ssa.Lookup)
	if !isLk {
		return nil, "append does not extend the current inFlight[image]"
	}
	if _, is := c20IsInFlight(lk.X); !is || !p.strictSame(lk.Index, mu.Key) {
		return nil, "append extends a different entry than the one stored to (already registered receivers would be lost)"
	}
	elems, ok := sliceElems(args[1])
	if !ok {
		return nil, "appended receivers are not a literal list"
	}
	return elems, ""
}

func asInstr(v ssa.Value) ssa.Instruction {
	in, _ := v.(ssa.Instruction)
	return in
}

func c20r3(c *Ctx) {
	p := c.P
	regFns := 0
	for _, fn := range p.FuncsIn(pkgPkgImport) {
		regs := c20Registrations(fn)
		if len(regs) == 0 {
			continue
		}
		regFns++
		// (a) the returned channel is the registered one
		for _, mu := range regs {
			o := c.Ob(fn, "returns-registered-channel", mu, "the function that registers a receiver returns exactly the channel it appended to inFlight[image], on every path")
			elems, why := p.c20AppendedChans(mu)
			if why != "" {
				o.Fail("%s", why)
				continue
			}
			if len(elems) != 1 {
				o.Unknown("%d receivers appended in one registration", len(elems))
				continue
			}
			ch := stripConv(elems[0])
			var problems []string
			nret := 0
			for _, rc := range p.returnCases(fn) {
				if rc.Ret.Block() == fn.Recover {
					continue
				}
				nret++
				if len(rc.Results) != 1 || stripConv(p.c12Resolve(rc.Results[0])) != ch {
					problems = append(problems, "return at "+p.IPos(rc.Ret)+" returns "+p.describe(rc.Results[0])+", not the registered channel")
				}
				if !p.mustPrecede(rc.Ret, func(in ssa.Instruction) bool { return in == ssa.Instruction(mu) }) {
					problems = append(problems, "return at "+p.IPos(rc.Ret)+" can be reached without registering the channel (caller would wait forever)")
				}
			}
			if nret == 0 {
				problems = append(problems, "no return found")
			}
			if len(problems) == 0 {
				o.OK()
			} else {
				o.Fail("%s", strings.Join(problems, "; "))
			}
		}
		// (b) callers receive exactly once and return what they received
		callers := p.callersOf(fn)
		if len(callers) == 0 {
			c.Ob(fn, "receive-once", nil, "the registered channel is received from").Fail("the registering function has no static caller: nobody receives the response")
		}
		if why := p.mayBeCalledDynamically(fn); why != "" {
			c.Ob(fn, "receive-once", nil, "all users of the registered channel are known").Unknown("registering function %s", why)
		}
		for _, cs := range callers {
			o := c.Ob(cs.Fn, "receive-once", cs.Instr, "the caller of the registering function receives exactly once from the returned channel, on every path, and returns the received package and error")
			call, isCall := cs.Instr.(*ssa.Call)
			if !isCall {
				o.Fail("registering function is started with go/defer; its channel is dropped")
				continue
			}
			var recvs []*ssa.UnOp
			escaped := ""
			for _, r := range referrersOf(call) {
				switch x := r.(type) {
				case *ssa.DebugRef:
				case *ssa.UnOp:
					if x.Op == token.ARROW {
						recvs = append(recvs, x)
					}
				default:
					escaped = p.IPos(r)
				}
			}
			var problems []string
			if escaped != "" {
				problems = append(problems, "the channel is also used at "+escaped+" (other receivers cannot be excluded)")
			}
			switch {
			case len(recvs) == 0:
				problems = append(problems, "no receive on the returned channel")
			case len(recvs) > 1:
				problems = append(problems, fmt.Sprintf("%d receives on a channel that gets exactly one response (the second blocks forever)", len(recvs)))
			default:
				rv := recvs[0]
				if innermostLoop(cs.Fn, rv.Block()) != nil {
					problems = append(problems, "receive is inside a loop")
				}
				if rv.CommaOk {
					problems = append(problems, "comma-ok receive: result shape not recognised")
				}
				if !p.mustFollow(call, func(in ssa.Instruction) bool { return in == ssa.Instruction(rv) }, nil) {
					problems = append(problems, "receive does not follow the request on every path")
				}
				// returned values come from the received response
				for _, rc := range p.returnCases(cs.Fn) {
					reach := false
					for _, in := range reachableAfter(rv, nil) {
						if in == ssa.Instruction(rc.Ret) {
							reach = true
						}
					}
					if !reach || len(rc.Results) != 2 {
						continue
					}
					for i, f := range []string{"RawPackage", "Err"} {
						if !c20IsFieldOf(p, rc.Results[i], f, rv) {
							problems = append(problems, fmt.Sprintf("result %d returned at %s is %s, not the %s of the received response", i, p.IPos(rc.Ret), p.describe(rc.Results[i]), f))
						}
					}
				}
			}
			if len(problems) == 0 {
				o.OK()
			} else {
				o.Fail("%s", strings.Join(problems, "; "))
			}
		}
	}
	if regFns == 0 {
		c.AnchorLost("registration into RequestManager.inFlight")
	}
	// (c) broadcast: one send per registered receiver
	bcs := c20Broadcasts(p)
	if len(bcs) == 0 {
		c.AnchorLost("send to an element of RequestManager.inFlight[image]")
	}
	bcFns := map[*ssa.Function]bool{}
	for _, bc := range bcs {
		bcFns[bc.Fn] = true
		o := c.Ob(bc.Fn, "send-per-receiver", bc.Send, "the response is sent exactly once to every element of inFlight[image]: the send runs on every iteration of a loop over the whole slice and the loop is never left early")
		if bc.Loop == nil {
			o.Unknown("%s", bc.Why)
			continue
		}
		var problems []string
		if !dominatesAllTails(bc.Send.Block(), bc.Loop) {
			problems = append(problems, "the send is skipped on some iterations (that receiver waits forever)")
		}
		inner := innermostLoop(bc.Fn, bc.Send.Block())
		if inner == nil || inner.Head != bc.Loop.Head {
			problems = append(problems, "the send is nested in a further loop (a receiver with capacity 1 would get a second, blocking send)")
		}
		if ok, at := p.loopEarlyExitsOnly(bc.Loop, func(*ssa.Return) bool { return false }); !ok {
			problems = append(problems, "the broadcast loop can be left early (return at "+at+"): remaining receivers wait forever")
		}
		base, _ := c20IsInFlight(bc.Lookup.X)
		if ok, why := p.LockHeld(bc.Send, LockReq{Field: c20Lock, Write: true, Base: base}, 3); !ok {
			problems = append(problems, "send outside the lock: "+why)
		}
		if len(problems) == 0 {
			o.OK()
		} else {
			o.Fail("%s", strings.Join(problems, "; "))
		}
	}
	// (d) the pull goroutine always broadcasts its own result for its own image
	for _, fn := range p.productFuncs() {
		for _, pc := range c20PullCalls(fn) {
			if pc == nil || len(pc.Call.Args) < 4 {
				continue
			}
			o := c.Ob(fn, "pull-then-broadcast", pc, "after the pull returns (package or error) the goroutine calls the broadcast function with the same image and with response{RawPackage: <pulled>, Err: <pull error>} on every path")
			image := pc.Call.Args[3]
			ok := p.mustFollow(pc, func(in ssa.Instruction) bool {
				ci, isCall := in.(*ssa.Call)
				if !isCall {
					return false
				}
				callee := staticCallee(ci.Common())
				if callee == nil || !bcFns[callee] {
					return false
				}
				args := callArgs(ci.Common())
				if len(args) != 2 || !p.strictSame(args[0], image) {
					return false
				}
				fields, _, isLit := compositeFields(args[1])
				if !isLit {
					return false
				}
				pk, i0 := asCall(fields["RawPackage"])
				er, i1 := asCall(fields["Err"])
				return pk == pc && i0 == 0 && er == pc && i1 == 1
			}, nil)
			if ok {
				o.OK()
			} else {
				o.Fail("a path after the pull does not reach the broadcast of {pulled package, pull error} for the pulled image: all waiting callers block forever")
			}
		}
	}
}

// c20IsFieldOf: v is field `field` of the struct value `of` (directly, or through a local copy).
func c20IsFieldOf(p *Program, v ssa.Value, field string, of ssa.Value) bool {
	v = stripConv(v)
	switch x := v.(type) {
	case *ssa.Field:
		return fieldName(x.X.Type(), x.Field) == field && p.c12Resolve(x.X) == of
	case *ssa.UnOp:
		if x.Op != token.MUL {
			return false
		}
		fa, ok := x.X.(*ssa.FieldAddr)
		if !ok || fieldName(fa.X.Type(), fa.Field) != field {
			return false
		}
		a, ok := fa.X.(*ssa.Alloc)
		if !ok {
			return false
		}
		sts, known := p.storesReaching(a, x)
		if !known || len(sts) != 1 || stripConv(sts[0].Val) != of {
			return false
		}
		// no separate store into that field
		for _, r := range referrersOf(a) {
			if f2, ok := r.(*ssa.FieldAddr); ok && derivedAddrWritten(f2) {
				return false
			}
		}
		return true
	}
	return false
}

func c20r4(c *Ctx) {
	p := c.P
	n := 0
	for _, fn := range p.FuncsIn(pkgPkgImport) {
		for _, mu := range c20Registrations(fn) {
			n++
			o := c.Ob(fn, "receiver-buffered", mu, "every channel appended to inFlight[image] is made with a constant capacity >= 1")
			elems, why := p.c20AppendedChans(mu)
			if why != "" {
				o.Fail("%s", why)
				continue
			}
			var problems []string
			if len(elems) == 0 {
				problems = append(problems, "nothing is appended")
			}
			for _, e := range elems {
				mc, ok := stripConv(p.c12Resolve(e)).(*ssa.MakeChan)
				if !ok {
					problems = append(problems, "appended receiver "+p.describe(e)+" is not created by make(chan …) in this function (capacity unknown)")
					continue
				}
				sz, isConst := constInt(mc.Size)
				switch {
				case !isConst:
					problems = append(problems, "channel capacity is not a constant")
				case sz < 1:
					problems = append(problems, fmt.Sprintf("channel made at %s is unbuffered: the broadcast blocks under inFlightLock until that caller receives", p.IPos(mc)))
				}
			}
			if len(problems) == 0 {
				o.OK()
			} else {
				o.Fail("%s", strings.Join(problems, "; "))
			}
		}
	}
	if n == 0 {
		c.AnchorLost("registration into RequestManager.inFlight")
	}
	// no other way of putting a channel into an inFlight slice
	for _, a := range p.fieldAccesses(c20RM, c20InFlight) {
		if a.Kind == "elem-store" || a.Kind == "store" || a.Kind == "copy" && a.Write || a.Kind == "clear" {
			c.Ob(a.Fn, "receiver-origin", a.Instr, "receivers enter inFlight only through the checked append").Fail("inFlight (or one of its slices) is written by %s, bypassing the buffered-channel check", a.Kind)
		}
	}
}

// c20ParamField: v is field `field` of a parameter of fn (parameter possibly spilled to a local).
func c20ParamField(p *Program, fn *ssa.Function, v ssa.Value, field string) bool {
	u, ok := stripConv(v).(*ssa.UnOp)
	if ok && u.Op == token.MUL {
		fa, ok := u.X.(*ssa.FieldAddr)
		if !ok || fieldName(fa.X.Type(), fa.Field) != field {
			return false
		}
		switch x := fa.X.(type) {
		case *ssa.Parameter:
			return true
		case *ssa.Alloc:
			sts, known := p.storesReaching(x, u)
			if !known || len(sts) != 1 {
				return false
			}
			_, isParam := sts[0].Val.(*ssa.Parameter)
			if !isParam {
				return false
			}
			for _, r := range referrersOf(x) {
				if f2, ok := r.(*ssa.FieldAddr); ok && derivedAddrWritten(f2) {
					return false
				}
			}
			return true
		}
		return false
	}
	if f, ok := stripConv(v).(*ssa.Field); ok && fieldName(f.X.Type(), f.Field) == field {
		_, isParam := f.X.(*ssa.Parameter)
		return isParam
	}
	return false
}

func c20r5(c *Ctx) {
	p := c.P
	bcs := c20Broadcasts(p)
	if len(bcs) == 0 {
		c.AnchorLost("send to an element of RequestManager.inFlight[image]")
	}
	for _, bc := range bcs {
		o := c.Ob(bc.Fn, "private-copy", bc.Send, "the RawPackage sent to a receiver is a DeepCopy of the pulled package made inside the loop (one per receiver), or nil only when the pulled package is nil; Err is the pull error")
		fields, _, ok := compositeFields(bc.Send.X)
		if !ok {
			o.Unknown("sent value is not a response literal")
			continue
		}
		var problems []string
		if !c20ParamField(p, bc.Fn, fields["Err"], "Err") {
			problems = append(problems, "Err is "+p.describe(fields["Err"])+", not the Err of the response being broadcast")
		}
		pkgV, has := fields["RawPackage"]
		if !has {
			problems = append(problems, "RawPackage is not set: callers get neither package nor error")
		} else {
			type alt struct {
				v    ssa.Value
				pred *ssa.BasicBlock
				blk  *ssa.BasicBlock
			}
			var alts []alt
			if ph, isPhi := stripConv(pkgV).(*ssa.Phi); isPhi {
				for i, e := range ph.Edges {
					alts = append(alts, alt{e, ph.Block().Preds[i], ph.Block()})
				}
			} else {
				alts = append(alts, alt{pkgV, nil, bc.Send.Block()})
			}
			for _, a := range alts {
				v := stripConv(a.v)
				if isNilConst(v) {
					// only when the pulled package is nil
					var fs []Fact
					if a.pred != nil {
						fs = p.FactsOnEdge(a.pred, a.blk)
					} else {
						fs = p.FactsAt(a.blk)
					}
					isNil := false
					for _, f := range fs {
						x, trueMeansNonNil, ok := errNilTest(f.Cond)
						if ok && f.Pol != trueMeansNonNil && c20ParamField(p, bc.Fn, x, "RawPackage") {
							isNil = true
						}
					}
					if !isNil {
						problems = append(problems, "nil is sent although the pulled package may be non-nil")
					}
					continue
				}
				call, _ := asCall(v)
				if call == nil || !isCallTo(call.Common(), c20RawPkgDC) {
					problems = append(problems, "sent package "+p.describe(v)+" is not the result of RawPackage.DeepCopy(): receivers share the file map")
					continue
				}
				if !c20ParamField(p, bc.Fn, callRecv(call.Common()), "RawPackage") {
					problems = append(problems, "DeepCopy is not taken of the package being broadcast")
				}
				if bc.Loop != nil && !bc.Loop.Body[call.Block()] {
					problems = append(problems, "DeepCopy at "+p.IPos(call)+" is made once outside the loop: all receivers get the same copy")
				}
			}
		}
		if len(problems) == 0 {
			o.OK()
		} else {
			o.Fail("%s", strings.Join(problems, "; "))
		}
	}
	// DeepCopy really copies
	if fn := c.MustFunc(pkgPkgTypes, "(*RawPackage).DeepCopy"); fn != nil {
		o := c.Ob(fn, "RawPackage.DeepCopy", nil, "RawPackage.DeepCopy returns a new RawPackage whose Files is Files.DeepCopy() of the receiver's Files")
		var problems []string
		n := 0
		for _, rc := range p.returnCases(fn) {
			n++
			a, isAlloc := stripConv(rc.Results[0]).(*ssa.Alloc)
			if !isAlloc {
				problems = append(problems, "does not return a newly allocated RawPackage")
				continue
			}
			fields, _, _ := compositeFields(a)
			call, _ := asCall(fields["Files"])
			if call == nil || !isCallTo(call.Common(), c20FilesDC) {
				problems = append(problems, "Files of the copy is "+p.describe(fields["Files"])+", not Files.DeepCopy(): the copy shares the file map")
				continue
			}
			if !c20ParamField(p, fn, callRecv(call.Common()), "Files") {
				problems = append(problems, "Files.DeepCopy is not taken of the receiver's Files")
			}
		}
		if n == 0 {
			problems = append(problems, "no return")
		}
		if len(problems) == 0 {
			o.OK()
		} else {
			o.Fail("%s", strings.Join(problems, "; "))
		}
	}
	if fn := c.MustFunc(pkgPkgTypes, "(Files).DeepCopy"); fn != nil {
		o := c.Ob(fn, "Files.DeepCopy", nil, "Files.DeepCopy returns a new map holding, for every key of the receiver, a newly allocated byte slice with the copied content")
		problems := c20CheckFilesDeepCopy(p, fn)
		if len(problems) == 0 {
			o.OK()
		} else {
			o.Fail("%s", strings.Join(problems, "; "))
		}
	}
}

func c20CheckFilesDeepCopy(p *Program, fn *ssa.Function) (problems []string) {
	if len(fn.Params) != 1 {
		return []string{"unexpected signature"}
	}
	recv := fn.Params[0]
	var newMap *ssa.MakeMap
	for _, rc := range p.returnCases(fn) {
		mm, ok := stripConv(p.c12Resolve(rc.Results[0])).(*ssa.MakeMap)
		if !ok {
			return []string{"does not return a freshly made map (" + p.describe(rc.Results[0]) + ")"}
		}
		if newMap != nil && newMap != mm {
			return []string{"returns different maps on different paths"}
		}
		newMap = mm
	}
	if newMap == nil {
		return []string{"no return"}
	}
	// the loop over the receiver
	var rng *ssa.Range
	for _, r := range referrersOf(recv) {
		if x, ok := r.(*ssa.Range); ok {
			rng = x
		}
	}
	if rng == nil {
		return []string{"does not range over the receiver"}
	}
	var key, val ssa.Value
	var next *ssa.Next
	for _, r := range referrersOf(rng) {
		if nx, ok := r.(*ssa.Next); ok {
			next = nx
			for _, e := range referrersOf(nx) {
				if ex, ok := e.(*ssa.Extract); ok {
					switch ex.Index {
					case 1:
						key = ex
					case 2:
						val = ex
					}
				}
			}
		}
	}
	if next == nil || key == nil || val == nil {
		return []string{"range over the receiver does not use key and value"}
	}
	l := innermostLoop(fn, next.Block())
	if l == nil {
		return []string{"range loop not found"}
	}
	var upd *ssa.MapUpdate
	nUpd := 0
	for _, r := range referrersOf(newMap) {
		if mu, ok := r.(*ssa.MapUpdate); ok && mu.Map == ssa.Value(newMap) {
			nUpd++
			upd = mu
		}
	}
	if nUpd != 1 {
		return []string{fmt.Sprintf("%d stores into the new map (expected exactly one, inside the loop)", nUpd)}
	}
	if !l.Body[upd.Block()] || !dominatesAllTails(upd.Block(), l) {
		problems = append(problems, "an entry is not stored for every key of the receiver")
	}
	if ok, at := p.loopEarlyExitsOnly(l, func(*ssa.Return) bool { return false }); !ok {
		problems = append(problems, "the copy loop can be left early (return at "+at+")")
	}
	if upd.Key != key {
		problems = append(problems, "entry is stored under "+p.describe(upd.Key)+", not under the key being visited")
	}
	// the stored value is a fresh copy of val
	stored := stripConv(upd.Value)
	fresh := false
	switch x := stored.(type) {
	case *ssa.MakeSlice:
		// needs copy(x, val) before the store, and len(x) == len(val)
		lenOK := false
		if lc, ok := x.Len.(*ssa.Call); ok {
			if bi, isB := lc.Call.Value.(*ssa.Builtin); isB && bi.Name() == "len" && lc.Call.Args[0] == val {
				lenOK = true
			}
		}
		copied := false
		for _, r := range referrersOf(x) {
			if args, ok := builtinCall(r, "copy"); ok && len(args) == 2 && args[0] == ssa.Value(x) && args[1] == val {
				if r.Block() == upd.Block() && instrIndex(r) < instrIndex(upd) || r.Block() != upd.Block() && r.Block().Dominates(upd.Block()) {
					copied = true
				}
			}
		}
		switch {
		case !lenOK:
			problems = append(problems, "new slice does not have the length of the source slice")
		case !copied:
			problems = append(problems, "content is not copied into the new slice before it is stored")
		default:
			fresh = true
		}
	case *ssa.Call:
		id := calleeID(x.Common())
		switch {
		case id == "bytes.Clone" || id == "slices.Clone":
			fresh = len(x.Call.Args) == 1 && x.Call.Args[0] == val
		case id == "builtin:append" && len(x.Call.Args) == 2:
			// append([]byte(nil), v...) / append([]byte{}, v...)
			first := stripConv(x.Call.Args[0])
			_, isEmptyLit := first.(*ssa.Slice)
			fresh = (isNilConst(first) || isEmptyLit) && x.Call.Args[1] == val
		}
		if !fresh {
			problems = append(problems, "stored value "+p.describe(stored)+" is not a recognised fresh copy of the visited value")
		}
	default:
		problems = append(problems, "stored value "+p.describe(stored)+" is not a newly allocated slice: the copy shares file contents with the original")
	}
	_ = fresh
	return problems
}

func c20r6(c *Ctx) {
	p := c.P
	bcs := c20Broadcasts(p)
	if len(bcs) == 0 {
		c.AnchorLost("send to an element of RequestManager.inFlight[image]")
	}
	for _, bc := range bcs {
		o := c.Ob(bc.Fn, "delete-after-broadcast", bc.Send, c.rule.Statement)
		key := bc.Lookup.Index
		isDel := func(in ssa.Instruction) bool {
			args, ok := builtinCall(in, "delete")
			if !ok || len(args) != 2 {
				return false
			}
			_, is := c20IsInFlight(args[0])
			return is && p.strictSame(args[1], key)
		}
		var dels []ssa.Instruction
		for _, b := range bc.Fn.Blocks {
			for _, in := range b.Instrs {
				if isDel(in) {
					dels = append(dels, in)
				}
			}
		}
		var problems []string
		var del ssa.Instruction
		if len(dels) == 0 {
			problems = append(problems, "inFlight[image] is never deleted: every later request for the image appends to a dead entry and waits forever")
		} else {
			del = dels[len(dels)-1]
			if !p.mustFollow(bc.Send, isDel, nil) {
				problems = append(problems, "delete(inFlight, image) does not follow the broadcast on every path")
			}
			if !p.mustFollow(bc.Lookup, isDel, nil) {
				problems = append(problems, "delete(inFlight, image) is skipped on some path through the broadcast function (e.g. when nobody waits)")
			}
			base, _ := c20IsInFlight(bc.Lookup.X)
			for _, d := range dels {
				if bc.Loop != nil && bc.Loop.Body[d.Block()] {
					problems = append(problems, "the entry is deleted inside the broadcast loop at "+p.IPos(d))
				}
				for _, in := range reachableAfter(d, nil) {
					if in == ssa.Instruction(bc.Lookup) {
						problems = append(problems, "the entry is deleted at "+p.IPos(d)+" before its receivers are read: nobody is answered")
					}
				}
				if ok, why := p.LockHeld(d, LockReq{Field: c20Lock, Write: true, Base: base}, 3); !ok {
					problems = append(problems, "delete outside the lock: "+why)
				}
			}
			if ok, why := p.lockNotReleasedBetween(bc.Lookup, del, c20Lock); !ok {
				problems = append(problems, "the lock is released between reading the receivers and deleting the entry (a receiver registered in the gap is deleted unanswered): "+why)
			}
		}
		if len(problems) == 0 {
			o.OK("delete at " + p.IPos(del))
		} else {
			o.Fail("%s", strings.Join(problems, "; "))
		}
	}
}
