package main

import (
	"fmt"
	"go/token"
	"go/types"
	"strings"

	"golang.org/x/tools/go/ssa"
)

// C20 — Concurrent image pulls are de-duplicated without losing or sharing results.

const (
	c20RM        = pkgPkgImport + ".RequestManager"
	c20InFlight  = "inFlight"
	c20Lock      = c20RM + ".inFlightLock"
	c20RawPkg    = pkgPkgTypes + ".RawPackage"
	c20RawPkgDC  = "(*" + pkgPkgTypes + ".RawPackage).DeepCopy"
	c20FilesDC   = "(" + pkgPkgTypes + ".Files).DeepCopy"
	c20PullField = "pullImage"
)

var c20Guarded = []GuardedField{{Type: c20RM, Field: c20InFlight, Mutex: "inFlightLock"}}

func init() {
	register(&Property{
		ID: "C20",
		Explanation: "Decides the structural core of C20 on every path of the current source of packageimport.RequestManager: (R1) every access of RequestManager.inFlight and of the " +
			"receiver slices stored in it happens with inFlightLock of the same instance held; (R2) the pull function is only ever called from a goroutine that is started under " +
			"`_, ok := inFlight[image]; !ok`, and check, `go` and the registration of the caller's receiver under the same image key lie in one critical section; (R3) the registering " +
			"function returns the very channel it appended, its callers receive from it exactly once and return what they received, the broadcast sends once per element of " +
			"inFlight[image] without early exit, and the pull goroutine always ends in that broadcast with the pull's own results; (R4) every channel stored in inFlight is made with a " +
			"constant capacity >= 1, so the single send per channel cannot block under the lock; (R5) the package sent to each receiver is nil only when the pulled package is nil and " +
			"otherwise a DeepCopy made inside the loop, and DeepCopy allocates a new map and a new byte slice per file; (R6) the image's entry is deleted on every path after the " +
			"broadcast, in the same critical section. Interleavings themselves are not explored.",
		NotDecided: []string{
			"interleavings: lost wake-ups are excluded only to the extent that registration (R2) and broadcast+cleanup (R6) are each one critical section of the same mutex",
			"goroutine leaks / never-answered receivers when the pull function panics or never returns",
			"that interface/dynamic callees do not release the caller's mutex",
			"contents of the pulled package (registry behaviour)",
		},
		Technique: "SSA lockset dataflow (A7) + guard-dominance facts (A1) + must-follow/must-precede and loop-shape checks (A2) + value identity (A3) over go statements, channel makes, sends and receives",
		Rules: []Rule{
			{ID: "C20.R1", Min: 11, Run: c20r1, Statement: "every access of RequestManager.inFlight (and of the receiver slices in it) is made with inFlightLock of the same instance held"},
			{ID: "C20.R2", Min: 2, Run: c20r2, Statement: "a pull is started only when no pull for the image is in flight, and check, start and registration of the receiver happen in one critical section"},
			{ID: "C20.R3", Min: 4, Run: c20r3, Statement: "every caller gets exactly one response: the registered channel is the returned one, it is received from once, the broadcast sends once per registered receiver, and the pull goroutine always broadcasts its own result"},
			{ID: "C20.R4", Min: 1, Run: c20r4, Statement: "receiver channels stored in inFlight are buffered with a constant capacity >= 1 (the sender never blocks under the lock)"},
			{ID: "C20.R5", Min: 3, Run: c20r5, Statement: "each receiver gets a private copy: a DeepCopy made per receiver inside the broadcast loop (nil only if the pulled package is nil); DeepCopy copies the file map and every byte slice"},
			{ID: "C20.R6", Min: 1, Run: c20r6, Statement: "after the broadcast the image's inFlight entry is deleted on every path, within the same critical section, so that a later request starts a fresh pull"},
		},
	})
}

func c20IsInFlight(v ssa.Value) (ssa.Value, bool) { return guardedFieldLoad(v, c20RM, c20InFlight) }

func c20r1(c *Ctx) {
	if !c12CheckGuardTable(c, c20Guarded) {
		return
	}
	for _, g := range c20Guarded {
		if checkLockDiscipline(c, g) == 0 {
			c.AnchorLost("accesses of " + g.Type + "." + g.Field)
		}
	}
}

// c20PullCalls: calls through the RequestManager.pullImage function field.
func c20PullCalls(fn *ssa.Function) []*ssa.Call {
	var out []*ssa.Call
	for _, call := range callsIn(fn) {
		if call.Common.IsInvoke() {
			continue
		}
		if _, ok := guardedFieldLoad(call.Common.Value, c20RM, c20PullField); ok {
			if ci, isCall := call.Instr.(*ssa.Call); isCall {
				out = append(out, ci)
			} else {
				out = append(out, nil) // go/defer of the pull function itself
			}
		}
	}
	return out
}

// c20Registrations: `inFlight[k] = …` instructions of fn.
func c20Registrations(fn *ssa.Function) []*ssa.MapUpdate {
	var out []*ssa.MapUpdate
	for _, b := range fn.Blocks {
		for _, in := range b.Instrs {
			if mu, ok := in.(*ssa.MapUpdate); ok {
				if _, is := c20IsInFlight(mu.Map); is {
					out = append(out, mu)
				}
			}
		}
	}
	return out
}

// c20Broadcast describes a send to an element of inFlight[k].
type c20Broadcast struct {
	Send   *ssa.Send
	Fn     *ssa.Function
	Slice  ssa.Value   // inFlight[k]
	Lookup *ssa.Lookup // the lookup producing Slice
	Loop   *Loop
	Why    string // non-empty when the loop shape is not recognised
}

// c20Broadcasts finds all sends whose channel is an element of an inFlight slice.
func c20Broadcasts(p *Program) []c20Broadcast {
	var out []c20Broadcast
	for _, fn := range p.FuncsIn(pkgPkgImport) {
		for _, b := range fn.Blocks {
			for _, in := range b.Instrs {
				s, ok := in.(*ssa.Send)
				if !ok {
					continue
				}
				ch := p.c12Resolve(s.Chan)
				u, isLoad := ch.(*ssa.UnOp)
				if !isLoad || u.Op != token.MUL {
					continue
				}
				ia, isIA := u.X.(*ssa.IndexAddr)
				if !isIA {
					continue
				}
				lk, isLk := stripConv(ia.X).(*ssa.Lookup)
				if !isLk {
					continue
				}
				if _, is := c20IsInFlight(lk.X); !is {
					continue
				}
				bc := c20Broadcast{Send: s, Fn: fn, Slice: ia.X, Lookup: lk}
				bc.Loop, bc.Why = sliceRangeLoop(p, fn, ia)
				out = append(out, bc)
			}
		}
	}
	return out
}

// sliceRangeLoop recognises "ia indexes its slice with the induction variable of a loop that visits
// 0..len(slice)-1": index phi at the loop head starting at -1 (for-range) or 0 (classic), stepped by
// one on the back edge, compared `< len(slice)` in the loop head.
func sliceRangeLoop(p *Program, fn *ssa.Function, ia *ssa.IndexAddr) (*Loop, string) {
	l := innermostLoop(fn, ia.Block())
	if l == nil {
		return nil, "element is not accessed inside a loop"
	}
	ph, isPhi := stripIncrement(ia.Index).(*ssa.Phi)
	if !isPhi || ph.Block() != l.Head {
		return nil, "index is not the induction variable of the enclosing loop"
	}
	shifted := ia.Index != ssa.Value(ph) // index = phi+1 (for-range lowering)
	okInit, okStep := false, false
	for i, e := range ph.Edges {
		pred := l.Head.Preds[i]
		if l.Body[pred] {
			// back edge: phi+1
			if b, ok := e.(*ssa.BinOp); ok && b.Op == token.ADD && b.X == ssa.Value(ph) {
				if n, isC := constInt(b.Y); isC && n == 1 {
					okStep = true
					continue
				}
			}
			return nil, "induction variable is not stepped by one"
		}
		n, isC := constInt(e)
		if isC && (shifted && n == -1 || !shifted && n == 0) {
			okInit = true
		} else {
			return nil, "iteration does not start at the first element"
		}
	}
	if !okInit || !okStep {
		return nil, "loop shape not recognised"
	}
	iff, ok := l.Head.Instrs[len(l.Head.Instrs)-1].(*ssa.If)
	if !ok {
		return nil, "loop head has no bound test"
	}
	cmp, ok := iff.Cond.(*ssa.BinOp)
	if !ok || cmp.Op != token.LSS || cmp.X != ia.Index {
		return nil, "loop bound is not `index < len(slice)`"
	}
	lc, ok := cmp.Y.(*ssa.Call)
	if !ok {
		return nil, "loop bound is not len(slice)"
	}
	if bi, isB := lc.Call.Value.(*ssa.Builtin); !isB || bi.Name() != "len" || !p.sameValue(lc.Call.Args[0], ia.X) {
		return nil, "loop bound is not the length of the indexed slice"
	}
	if !l.Body[l.Head.Succs[0]] {
		return nil, "loop body is not entered on index < len"
	}
	return l, ""
}

func c20r2(c *Ctx) {
	p := c.P
	n := 0
	for _, fn := range p.productFuncs() {
		for _, pc := range c20PullCalls(fn) {
			n++
			var at ssa.Instruction
			if pc != nil {
				at = pc
			}
			o := c.Ob(fn, "pull", at, c.rule.Statement)
			o.Require("called from a goroutine started under F: _, ok := inFlight[image]", "lock held from the check over `go` to inFlight[image] = append(…)")
			if pc == nil {
				o.Unknown("the pull function is started directly with go/defer; image argument cannot be related to a registration")
				continue
			}
			if len(pc.Call.Args) < 4 {
				o.Unknown("unexpected pull signature")
				continue
			}
			image := pc.Call.Args[3]
			// every way this function starts must be a `go` statement
			type start struct {
				g     *ssa.Go
				image ssa.Value
			}
			var starts []start
			bad := ""
			if fn.Parent() != nil {
				for _, b := range fn.Parent().Blocks {
					for _, in := range b.Instrs {
						mc, ok := in.(*ssa.MakeClosure)
						if !ok || mc.Fn != ssa.Value(fn) {
							continue
						}
						for _, r := range referrersOf(mc) {
							switch x := r.(type) {
							case *ssa.DebugRef:
							case *ssa.Go:
								img, ok := p.translateClosureBase(fn, mc, x, image)
								if !ok {
									bad = "cannot relate the pulled image to a value at the go statement"
								}
								starts = append(starts, start{x, img})
							default:
								bad = "the pulling closure is not only started with `go` (used at " + p.IPos(r) + ")"
							}
						}
					}
				}
			} else {
				if why := p.mayBeCalledDynamically(fn); why != "" {
					bad = "pulling function " + why
				}
				for _, cs := range p.callersOf(fn) {
					g, isGo := cs.Instr.(*ssa.Go)
					if !isGo {
						bad = "pulling function is called synchronously at " + p.IPos(cs.Instr)
						continue
					}
					idx := paramIndex(fn, image)
					if idx < 0 || idx >= len(g.Call.Args) {
						bad = "cannot relate the pulled image to a value at the go statement"
						continue
					}
					starts = append(starts, start{g, g.Call.Args[idx]})
				}
			}
			if bad != "" {
				o.Fail("%s", bad)
				continue
			}
			if len(starts) == 0 {
				o.Fail("no go statement starts the pulling function")
				continue
			}
			var problems, notes []string
			for _, st := range starts {
				g := st.g
				gfn := g.Parent()
				lk := lookupFact(p.FactsAt(g.Block()), false, func(lk *ssa.Lookup) bool {
					_, is := c20IsInFlight(lk.X)
					return is && p.strictSame(lk.Index, st.image)
				})
				if lk == nil {
					problems = append(problems, fmt.Sprintf("go statement at %s is not dominated by `_, ok := inFlight[image]; !ok` for the pulled image: a second pull for an image already in flight can start", p.IPos(g)))
					continue
				}
				base, _ := c20IsInFlight(lk.X)
				for _, in := range between(lk, g) {
					if args, isDel := builtinCall(in, "delete"); isDel && len(args) == 2 {
						if _, is := c20IsInFlight(args[0]); is {
							problems = append(problems, "an inFlight entry is deleted between the check and the go statement at "+p.IPos(in))
						}
					}
				}
				if ok, why := p.LockHeld(lk, LockReq{Field: c20Lock, Write: true, Base: base}, 3); !ok {
					problems = append(problems, "in-flight check is not under the lock: "+why)
				}
				if ok, why := p.LockHeld(g, LockReq{Field: c20Lock, Write: true, Base: base}, 3); !ok {
					problems = append(problems, "pull is started outside the lock: "+why)
				}
				if ok, why := p.lockNotReleasedBetween(lk, g, c20Lock); !ok {
					problems = append(problems, "lock released between the in-flight check and the go statement: "+why)
				}
				// registration under the same key follows in the same critical section
				var reg *ssa.MapUpdate
				for _, mu := range c20Registrations(gfn) {
					if p.strictSame(mu.Key, st.image) {
						reg = mu
					}
				}
				switch {
				case reg == nil:
					problems = append(problems, "no inFlight[image] = … for the pulled image in the function that starts the pull")
				case !p.mustFollow(g, func(in ssa.Instruction) bool { return in == ssa.Instruction(reg) }, nil) &&
					!p.mustPrecede(g, func(in ssa.Instruction) bool { return in == ssa.Instruction(reg) }):
					problems = append(problems, "the caller's receiver is not registered on every path that starts the pull")
				default:
					first, second := ssa.Instruction(g), ssa.Instruction(reg)
					if !p.mustFollow(g, func(in ssa.Instruction) bool { return in == ssa.Instruction(reg) }, nil) {
						first, second = second, first
					}
					if ok, why := p.lockNotReleasedBetween(first, second, c20Lock); !ok {
						problems = append(problems, "lock released between starting the pull and registering the receiver (the response could be broadcast before the receiver is registered): "+why)
					}
					if ok, why := p.LockHeld(reg, LockReq{Field: c20Lock, Write: true, Base: base}, 3); !ok {
						problems = append(problems, "registration not under the lock: "+why)
					}
					notes = append(notes, "go at "+p.IPos(g)+" under !ok of "+p.describe(lk)+", registration at "+p.IPos(reg))
				}
			}
			if len(problems) == 0 {
				o.OK(notes...)
			} else {
				o.Fail("%s", strings.Join(problems, "; "))
			}
		}
	}
	if n == 0 {
		c.AnchorLost("call through RequestManager.pullImage")
	}
	// every registration has an in-flight check for its key in the same critical section
	for _, fn := range p.FuncsIn(pkgPkgImport) {
		for _, mu := range c20Registrations(fn) {
			o := c.Ob(fn, "registration", mu, "a receiver is registered in the critical section that decided whether a pull must be started for that image")
			var lk *ssa.Lookup
			for _, b := range fn.Blocks {
				for _, in := range b.Instrs {
					x, ok := in.(*ssa.Lookup)
					if !ok || !x.CommaOk {
						continue
					}
					if _, is := c20IsInFlight(x.X); is && p.strictSame(x.Index, mu.Key) {
						lk = x
					}
				}
			}
			switch {
			case lk == nil:
				o.Fail("no `_, ok := inFlight[image]` for the registered key in this function")
			case !p.mustPrecede(mu, func(in ssa.Instruction) bool { return in == ssa.Instruction(lk) }):
				o.Fail("the in-flight check does not precede the registration on every path")
			default:
				if ok, why := p.lockNotReleasedBetween(lk, mu, c20Lock); !ok {
					o.Fail("lock released between the in-flight check and the registration: %s", why)
				} else {
					o.OK()
				}
			}
		}
	}
}

// c20AppendedChans: mu.Value == append(<current inFlight[key]>, ch…): returns the appended elements.
// The extended slice is the entry's current value: read by a lookup of the same map under the same
// key (in place, or earlier into a temporary — plain or comma-ok form) with no write to the map and
// no release of the lock between that read and the store.
func (p *Program) c20AppendedChans(mu *ssa.MapUpdate) ([]ssa.Value, string) {
	args, ok := builtinCall(asInstr(stripConv(p.c12Resolve(mu.Value))), "append")
	if !ok || len(args) != 2 {
		return nil, "stored value is not append(inFlight[image], recv)"
	}
	var lk *ssa.Lookup
	switch x := stripConv(p.c12Resolve(args[0])).(type) {
	case *ssa.Lookup:
		if !x.CommaOk {
			lk = x
		}
	case *ssa.Extract:
		if l, isLk := x.Tuple.(*ssa.Lookup); isLk && l.CommaOk && x.Index == 0 {
			lk = l
		}
	}
	if lk == nil {
		return nil, "append does not extend the current inFlight[image]"
	}
	lkBase, is := c20IsInFlight(lk.X)
	muBase, _ := c20IsInFlight(mu.Map)
	if !is || !p.strictSame(lk.Index, mu.Key) || muBase == nil || !p.sameValue(lkBase, muBase) {
		return nil, "append extends a different entry than the one stored to (already registered receivers would be lost)"
	}
	for _, in := range between(lk, mu) {
		switch x := in.(type) {
		case *ssa.MapUpdate:
			if _, is := c20IsInFlight(x.Map); is {
				return nil, "inFlight is written at " + p.IPos(in) + " between reading the entry and storing the extended slice (receivers registered in between would be lost)"
			}
		case *ssa.Call:
			if dargs, isDel := builtinCall(x, "delete"); isDel && len(dargs) == 2 {
				if _, is := c20IsInFlight(dargs[0]); is {
					return nil, "an inFlight entry is deleted at " + p.IPos(in) + " between reading the entry and storing the extended slice"
				}
			}
		}
	}
	if ok, why := p.lockNotReleasedBetween(lk, mu, c20Lock); !ok {
		return nil, "the lock is released between reading inFlight[image] and storing the extended slice (receivers registered in the gap would be lost): " + why
	}
	elems, ok := sliceElems(args[1])
	if !ok {
		return nil, "appended receivers are not a literal list"
	}
	return elems, ""
}

func asInstr(v ssa.Value) ssa.Instruction {
	in, _ := v.(ssa.Instruction)
	return in
}

func c20r3(c *Ctx) {
	p := c.P
	regFns := 0
	for _, fn := range p.FuncsIn(pkgPkgImport) {
		regs := c20Registrations(fn)
		if len(regs) == 0 {
			continue
		}
		regFns++
		// (a) the returned channel is the registered one
		for _, mu := range regs {
			o := c.Ob(fn, "returns-registered-channel", mu, "the function that registers a receiver returns exactly the channel it appended to inFlight[image], on every path")
			elems, why := p.c20AppendedChans(mu)
			if why != "" {
				o.Fail("%s", why)
				continue
			}
			if len(elems) != 1 {
				o.Unknown("%d receivers appended in one registration", len(elems))
				continue
			}
			ch := stripConv(elems[0])
			var problems []string
			nret := 0
			for _, rc := range p.returnCases(fn) {
				if rc.Ret.Block() == fn.Recover {
					continue
				}
				nret++
				if len(rc.Results) != 1 || stripConv(p.c12Resolve(rc.Results[0])) != ch {
					problems = append(problems, "return at "+p.IPos(rc.Ret)+" returns "+p.describe(rc.Results[0])+", not the registered channel")
				}
				if !p.mustPrecede(rc.Ret, func(in ssa.Instruction) bool { return in == ssa.Instruction(mu) }) {
					problems = append(problems, "return at "+p.IPos(rc.Ret)+" can be reached without registering the channel (caller would wait forever)")
				}
			}
			if nret == 0 {
				problems = append(problems, "no return found")
			}
			if len(problems) == 0 {
				o.OK()
			} else {
				o.Fail("%s", strings.Join(problems, "; "))
			}
		}
		// (b) callers receive exactly once and return what they received
		callers := p.callersOf(fn)
		if len(callers) == 0 {
			c.Ob(fn, "receive-once", nil, "the registered channel is received from").Fail("the registering function has no static caller: nobody receives the response")
		}
		if why := p.mayBeCalledDynamically(fn); why != "" {
			c.Ob(fn, "receive-once", nil, "all users of the registered channel are known").Unknown("registering function %s", why)
		}
		for _, cs := range callers {
			o := c.Ob(cs.Fn, "receive-once", cs.Instr, "the caller of the registering function receives exactly once from the returned channel, on every path, and returns the received package and error")
			call, isCall := cs.Instr.(*ssa.Call)
			if !isCall {
				o.Fail("registering function is started with go/defer; its channel is dropped")
				continue
			}
			var recvs []*ssa.UnOp
			escaped := ""
			for _, r := range referrersOf(call) {
				switch x := r.(type) {
				case *ssa.DebugRef:
				case *ssa.UnOp:
					if x.Op == token.ARROW {
						recvs = append(recvs, x)
					}
				default:
					escaped = p.IPos(r)
				}
			}
			var problems []string
			if escaped != "" {
				problems = append(problems, "the channel is also used at "+escaped+" (other receivers cannot be excluded)")
			}
			switch {
			case len(recvs) == 0:
				problems = append(problems, "no receive on the returned channel")
			case len(recvs) > 1:
				problems = append(problems, fmt.Sprintf("%d receives on a channel that gets exactly one response (the second blocks forever)", len(recvs)))
			default:
				rv := recvs[0]
				if innermostLoop(cs.Fn, rv.Block()) != nil {
					problems = append(problems, "receive is inside a loop")
				}
				if rv.CommaOk {
					problems = append(problems, "comma-ok receive: result shape not recognised")
				}
				if !p.mustFollow(call, func(in ssa.Instruction) bool { return in == ssa.Instruction(rv) }, nil) {
					problems = append(problems, "receive does not follow the request on every path")
				}
				// returned values come from the received response
				for _, rc := range p.returnCases(cs.Fn) {
					reach := false
					for _, in := range reachableAfter(rv, nil) {
						if in == ssa.Instruction(rc.Ret) {
							reach = true
						}
					}
					if !reach || len(rc.Results) != 2 {
						continue
					}
					for i, f := range []string{"RawPackage", "Err"} {
						if !c20IsFieldOf(p, rc.Results[i], f, rv) {
							problems = append(problems, fmt.Sprintf("result %d returned at %s is %s, not the %s of the received response", i, p.IPos(rc.Ret), p.describe(rc.Results[i]), f))
						}
					}
				}
			}
			if len(problems) == 0 {
				o.OK()
			} else {
				o.Fail("%s", strings.Join(problems, "; "))
			}
		}
	}
	if regFns == 0 {
		c.AnchorLost("registration into RequestManager.inFlight")
	}
	// (c) broadcast: one send per registered receiver
	bcs := c20Broadcasts(p)
	if len(bcs) == 0 {
		c.AnchorLost("send to an element of RequestManager.inFlight[image]")
	}
	bcFns := map[*ssa.Function]bool{}
	for _, bc := range bcs {
		bcFns[bc.Fn] = true
		o := c.Ob(bc.Fn, "send-per-receiver", bc.Send, "the response is sent exactly once to every element of inFlight[image]: the send runs on every iteration of a loop over the whole slice and the loop is never left early")
		if bc.Loop == nil {
			o.Unknown("%s", bc.Why)
			continue
		}
		var problems []string
		if !dominatesAllTails(bc.Send.Block(), bc.Loop) {
			problems = append(problems, "the send is skipped on some iterations (that receiver waits forever)")
		}
		inner := innermostLoop(bc.Fn, bc.Send.Block())
		if inner == nil || inner.Head != bc.Loop.Head {
			problems = append(problems, "the send is nested in a further loop (a receiver with capacity 1 would get a second, blocking send)")
		}
		if ok, at := p.loopEarlyExitsOnly(bc.Loop, func(*ssa.Return) bool { return false }); !ok {
			problems = append(problems, "the broadcast loop can be left early (return at "+at+"): remaining receivers wait forever")
		}
		base, _ := c20IsInFlight(bc.Lookup.X)
		if ok, why := p.LockHeld(bc.Send, LockReq{Field: c20Lock, Write: true, Base: base}, 3); !ok {
			problems = append(problems, "send outside the lock: "+why)
		}
		if len(problems) == 0 {
			o.OK()
		} else {
			o.Fail("%s", strings.Join(problems, "; "))
		}
	}
	// (d) the pull goroutine always broadcasts its own result for its own image
	for _, fn := range p.productFuncs() {
		for _, pc := range c20PullCalls(fn) {
			if pc == nil || len(pc.Call.Args) < 4 {
				continue
			}
			o := c.Ob(fn, "pull-then-broadcast", pc, "after the pull returns (package or error) the goroutine calls the broadcast function with the same image and with response{RawPackage: <pulled>, Err: <pull error>} on every path")
			image := pc.Call.Args[3]
			ok := p.mustFollow(pc, func(in ssa.Instruction) bool {
				ci, isCall := in.(*ssa.Call)
				if !isCall {
					return false
				}
				callee := staticCallee(ci.Common())
				if callee == nil || !bcFns[callee] {
					return false
				}
				args := callArgs(ci.Common())
				if len(args) != 2 || !p.strictSame(args[0], image) {
					return false
				}
				fields, _, isLit := compositeFields(args[1])
				if !isLit {
					return false
				}
				pk, i0 := asCall(fields["RawPackage"])
				er, i1 := asCall(fields["Err"])
				return pk == pc && i0 == 0 && er == pc && i1 == 1
			}, nil)
			if ok {
				o.OK()
			} else {
				o.Fail("a path after the pull does not reach the broadcast of {pulled package, pull error} for the pulled image: all waiting callers block forever")
			}
		}
	}
}

// c20IsFieldOf: v is field `field` of the struct value `of` (directly, or through a local copy).
func c20IsFieldOf(p *Program, v ssa.Value, field string, of ssa.Value) bool {
	v = stripConv(v)
	switch x := v.(type) {
	case *ssa.Field:
		return fieldName(x.X.Type(), x.Field) == field && p.c12Resolve(x.X) == of
	case *ssa.UnOp:
		if x.Op != token.MUL {
			return false
		}
		fa, ok := x.X.(*ssa.FieldAddr)
		if !ok || fieldName(fa.X.Type(), fa.Field) != field {
			return false
		}
		a, ok := fa.X.(*ssa.Alloc)
		if !ok {
			return false
		}
		sts, known := p.storesReaching(a, x)
		if !known || len(sts) != 1 || stripConv(sts[0].Val) != of {
			return false
		}
		// no separate store into that field
		for _, r := range referrersOf(a) {
			if f2, ok := r.(*ssa.FieldAddr); ok && derivedAddrWritten(f2) {
				return false
			}
		}
		return true
	}
	return false
}

func c20r4(c *Ctx) {
	p := c.P
	n := 0
	for _, fn := range p.FuncsIn(pkgPkgImport) {
		for _, mu := range c20Registrations(fn) {
			n++
			o := c.Ob(fn, "receiver-buffered", mu, "every channel appended to inFlight[image] is made with a constant capacity >= 1")
			elems, why := p.c20AppendedChans(mu)
			if why != "" {
				o.Fail("%s", why)
				continue
			}
			var problems []string
			if len(elems) == 0 {
				problems = append(problems, "nothing is appended")
			}
			for _, e := range elems {
				mc, ok := stripConv(p.c12Resolve(e)).(*ssa.MakeChan)
				if !ok {
					problems = append(problems, "appended receiver "+p.describe(e)+" is not created by make(chan …) in this function (capacity unknown)")
					continue
				}
				sz, isConst := constInt(mc.Size)
				switch {
				case !isConst:
					problems = append(problems, "channel capacity is not a constant")
				case sz < 1:
					problems = append(problems, fmt.Sprintf("channel made at %s is unbuffered: the broadcast blocks under inFlightLock until that caller receives", p.IPos(mc)))
				}
			}
			if len(problems) == 0 {
				o.OK()
			} else {
				o.Fail("%s", strings.Join(problems, "; "))
			}
		}
	}
	if n == 0 {
		c.AnchorLost("registration into RequestManager.inFlight")
	}
	// no other way of putting a channel into an inFlight slice
	for _, a := range p.fieldAccesses(c20RM, c20InFlight) {
		if a.Kind == "elem-store" || a.Kind == "store" || a.Kind == "copy" && a.Write || a.Kind == "clear" {
			c.Ob(a.Fn, "receiver-origin", a.Instr, "receivers enter inFlight only through the checked append").Fail("inFlight (or one of its slices) is written by %s, bypassing the buffered-channel check", a.Kind)
		}
	}
}

// c20ParamField: v is field `field` of a parameter of fn (parameter possibly spilled to a local).
func c20ParamField(p *Program, fn *ssa.Function, v ssa.Value, field string) bool {
	u, ok := stripConv(v).(*ssa.UnOp)
	if ok && u.Op == token.MUL {
		fa, ok := u.X.(*ssa.FieldAddr)
		if !ok || fieldName(fa.X.Type(), fa.Field) != field {
			return false
		}
		switch x := fa.X.(type) {
		case *ssa.Parameter:
			return true
		case *ssa.Alloc:
			sts, known := p.storesReaching(x, u)
			if !known || len(sts) != 1 {
				return false
			}
			_, isParam := sts[0].Val.(*ssa.Parameter)
			if !isParam {
				return false
			}
			for _, r := range referrersOf(x) {
				if f2, ok := r.(*ssa.FieldAddr); ok && derivedAddrWritten(f2) {
					return false
				}
			}
			return true
		}
		return false
	}
	if f, ok := stripConv(v).(*ssa.Field); ok && fieldName(f.X.Type(), f.Field) == field {
		_, isParam := f.X.(*ssa.Parameter)
		return isParam
	}
	return false
}

// c20Where locates a value: the function it lives in and, for a helper, the call through which that
// helper was entered from the function above (root: the broadcasting function; typ: the type of the
// response value that is sent).
type c20Where struct {
	fn     *ssa.Function
	call   *ssa.Call
	parent *c20Where
	typ    types.Type
	// barrier: head of the broadcast loop (root only): a definition that reaches the send around
	// the loop was made for an earlier receiver
	barrier *ssa.BasicBlock
}

// c20WFact is a guard fact together with the function activation it belongs to.
type c20WFact struct {
	where *c20Where
	f     Fact
}

// c20Alt is one value a field of the sent response can have.
type c20Alt struct {
	where *c20Where
	val   ssa.Value  // nil: the field is left at its zero value
	own   bool       // the field of the response being broadcast itself (the response is passed on as a whole)
	stale bool       // the definition may stem from an earlier iteration of the broadcast loop …
	carry []c20WFact // … and this is what holds whenever it does
	facts []c20WFact // what is known whenever this alternative is the one that is sent
}

func c20WithFacts(have []c20WFact, w *c20Where, fs []Fact) []c20WFact {
	out := append([]c20WFact{}, have...)
	for _, f := range fs {
		out = append(out, c20WFact{w, f})
	}
	return out
}

func c20StructFieldIndex(t types.Type, field string) int {
	if pt, ok := t.Underlying().(*types.Pointer); ok {
		t = pt.Elem()
	}
	st, ok := t.Underlying().(*types.Struct)
	if !ok {
		return -1
	}
	for i := 0; i < st.NumFields(); i++ {
		if st.Field(i).Name() == field {
			return i
		}
	}
	return -1
}

// c20FieldAlts enumerates the values field `field` of the struct value v can have, judged per way
// the value is built: a composite literal or a variable filled field by field (per reaching
// definition, with the conditions of the ways it reaches the use), a merge of several such values,
// the result of a statically called helper (per return of the helper), or the broadcast response
// itself. why is non-empty when the value is built in a way that is not recognised.
func (p *Program) c20FieldAlts(w *c20Where, v ssa.Value, field string, use ssa.Instruction, facts []c20WFact, stale bool, depth int) (alts []c20Alt, why string) {
	if depth > 8 {
		return nil, "value is built through too many steps"
	}
	v = stripConv(v)
	switch x := v.(type) {
	case *ssa.Const:
		if x.Value == nil {
			return []c20Alt{{where: w, stale: stale, facts: facts}}, "" // T{}: every field is zero
		}
	case *ssa.Parameter:
		if w.parent == nil {
			if !types.Identical(x.Type(), w.typ) {
				return nil, "parameter " + x.Name() + " is not a response"
			}
			return []c20Alt{{where: w, own: true, stale: stale, facts: facts}}, ""
		}
		i := paramIndex(w.fn, x)
		if i < 0 || i >= len(w.call.Call.Args) {
			return nil, "parameter " + x.Name() + " cannot be related to an argument"
		}
		return p.c20FieldAlts(w.parent, w.call.Call.Args[i], field, w.call, facts, stale, depth+1)
	case *ssa.UnOp:
		a, isAlloc := x.X.(*ssa.Alloc)
		if x.Op != token.MUL || !isAlloc {
			return nil, p.describe(v) + " is not a local response value"
		}
		idx := c20StructFieldIndex(a.Type(), field)
		if idx < 0 {
			return nil, "no field " + field
		}
		defs, ok := p.fieldDefsAt(a, idx, x, w.barrier)
		if !ok {
			return nil, "the address of " + p.describe(a) + " escapes"
		}
		for _, d := range defs {
			fs := c20WithFacts(facts, w, d.Facts)
			st := stale || d.ViaBarrier
			var carry []c20WFact
			if d.ViaBarrier {
				carry = c20WithFacts(nil, w, d.BarrierFacts)
			}
			switch {
			case d.Whole != nil:
				sub, why := p.c20FieldAlts(w, d.Whole, field, d.At, fs, st, depth+1)
				if why != "" {
					return nil, why
				}
				alts = append(alts, sub...)
			case d.Val == nil:
				alts = append(alts, c20Alt{where: w, stale: st, facts: fs})
			default:
				for _, m := range p.c20ExpandMerge(w, d.Val, fs, st, 0) {
					m.carry = carry
					alts = append(alts, m)
				}
			}
		}
		return alts, ""
	case *ssa.Phi:
		for i, e := range x.Edges {
			pred := x.Block().Preds[i]
			if x.Block().Dominates(pred) {
				return nil, "response carried over from a previous iteration"
			}
			sub, why := p.c20FieldAlts(w, e, field, use, c20WithFacts(facts, w, p.FactsOnEdge(pred, x.Block())), stale, depth+1)
			if why != "" {
				return nil, why
			}
			alts = append(alts, sub...)
		}
		return alts, ""
	case *ssa.Call:
		callee := staticCallee(x.Common())
		if callee == nil || len(callee.Blocks) == 0 {
			return nil, "response is the result of " + p.describe(v) + ", whose body is not known"
		}
		for u := w; u != nil; u = u.parent {
			if u.fn == callee {
				return nil, "recursive helper " + callee.Name()
			}
		}
		child := &c20Where{fn: callee, call: x, parent: w, typ: w.typ}
		fs := c20WithFacts(facts, w, p.FactsAt(x.Block()))
		n := 0
		for _, rc := range p.returnCases(callee) {
			if callee.Recover != nil && rc.Ret.Block() == callee.Recover {
				continue
			}
			if len(rc.Results) != 1 || rc.Results[0] == nil {
				return nil, "helper " + callee.Name() + " does not return one response"
			}
			n++
			sub, why := p.c20FieldAlts(child, rc.Results[0], field, rc.Ret, c20WithFacts(fs, child, rc.Facts), stale, depth+1)
			if why != "" {
				return nil, why
			}
			alts = append(alts, sub...)
		}
		if n == 0 {
			return nil, "helper " + callee.Name() + " never returns"
		}
		return alts, ""
	}
	return nil, "sent value " + p.describe(v) + " is neither a response literal, a response variable nor the result of a helper"
}

// c20ExpandMerge splits a field value that merges several values (`var pkg *T; if c { pkg = … }`)
// into one alternative per incoming edge, with the conditions of that edge.
func (p *Program) c20ExpandMerge(w *c20Where, v ssa.Value, facts []c20WFact, stale bool, depth int) []c20Alt {
	ph, isPhi := stripConv(v).(*ssa.Phi)
	if !isPhi || depth > 4 {
		return []c20Alt{{where: w, val: v, stale: stale, facts: facts}}
	}
	for _, pred := range ph.Block().Preds {
		if ph.Block().Dominates(pred) {
			// carried around a loop: a value of an earlier iteration; judged as it is (not a fresh copy)
			return []c20Alt{{where: w, val: v, stale: stale, facts: facts}}
		}
	}
	var out []c20Alt
	for i, e := range ph.Edges {
		fs := c20WithFacts(facts, w, p.FactsOnEdge(ph.Block().Preds[i], ph.Block()))
		out = append(out, p.c20ExpandMerge(w, e, fs, stale, depth+1)...)
	}
	return out
}

// c20OwnStruct: s denotes the response being broadcast (the parameter of the broadcasting function
// of the sent type), directly, through the local it was spilled to, or as the argument bound to a
// helper's parameter.
func (p *Program) c20OwnStruct(w *c20Where, s ssa.Value, depth int) bool {
	if depth > 8 || s == nil {
		return false
	}
	s = stripConv(s)
	switch x := s.(type) {
	case *ssa.Parameter:
		if w.parent == nil {
			t := x.Type()
			if pt, ok := t.Underlying().(*types.Pointer); ok {
				t = pt.Elem()
			}
			return types.Identical(t, w.typ)
		}
		i := paramIndex(w.fn, x)
		if i < 0 || i >= len(w.call.Call.Args) {
			return false
		}
		return p.c20OwnStruct(w.parent, w.call.Call.Args[i], depth+1)
	case *ssa.UnOp:
		if a, ok := x.X.(*ssa.Alloc); ok && x.Op == token.MUL {
			return p.c20OwnStruct(w, a, depth+1)
		}
	case *ssa.Alloc:
		// a parameter spilled to a local: one whole store, never written through a field
		var whole []*ssa.Store
		for _, r := range referrersOf(x) {
			switch y := r.(type) {
			case *ssa.Store:
				if y.Addr != ssa.Value(x) {
					return false
				}
				whole = append(whole, y)
			case *ssa.FieldAddr:
				if derivedAddrWritten(y) {
					return false
				}
			case *ssa.UnOp, *ssa.DebugRef:
			default:
				return false
			}
		}
		return len(whole) == 1 && p.c20OwnStruct(w, whole[0].Val, depth+1)
	}
	return false
}

// c20OwnNilnessContradicts: the facts test the package of the response being broadcast (which does
// not change during the broadcast) for nil with both outcomes: no execution satisfies them all.
func (p *Program) c20OwnNilnessContradicts(facts []c20WFact) bool {
	sawNil, sawNonNil := false, false
	for _, wf := range facts {
		x, trueMeansNonNil, ok := errNilTest(wf.f.Cond)
		if !ok || !p.c20OwnField(wf.where, x, "RawPackage") {
			continue
		}
		if wf.f.Pol == trueMeansNonNil {
			sawNonNil = true
		} else {
			sawNil = true
		}
	}
	return sawNil && sawNonNil
}

// c20OwnField: v reads field `field` of the response being broadcast.
func (p *Program) c20OwnField(w *c20Where, v ssa.Value, field string) bool {
	switch x := stripConv(v).(type) {
	case *ssa.UnOp:
		if fa, ok := x.X.(*ssa.FieldAddr); ok && x.Op == token.MUL && fieldName(fa.X.Type(), fa.Field) == field {
			return p.c20OwnStruct(w, fa.X, 0)
		}
	case *ssa.Field:
		if fieldName(x.X.Type(), x.Field) == field {
			return p.c20OwnStruct(w, x.X, 0)
		}
	}
	return false
}

func c20r5(c *Ctx) {
	p := c.P
	bcs := c20Broadcasts(p)
	if len(bcs) == 0 {
		c.AnchorLost("send to an element of RequestManager.inFlight[image]")
	}
	for _, bc := range bcs {
		o := c.Ob(bc.Fn, "private-copy", bc.Send, "the RawPackage sent to a receiver is a DeepCopy of the pulled package made inside the loop (one per receiver), or nil only when the pulled package is nil; Err is the pull error")
		root := &c20Where{fn: bc.Fn, typ: bc.Send.X.Type()}
		if bc.Loop != nil {
			root.barrier = bc.Loop.Head
		}
		var problems []string
		errAlts, why := p.c20FieldAlts(root, bc.Send.X, "Err", bc.Send, nil, false, 0)
		if why != "" {
			o.Unknown("the response sent at %s is not recognised (%s)", p.IPos(bc.Send), why)
			continue
		}
		pkgAlts, why := p.c20FieldAlts(root, bc.Send.X, "RawPackage", bc.Send, nil, false, 0)
		if why != "" {
			o.Unknown("the response sent at %s is not recognised (%s)", p.IPos(bc.Send), why)
			continue
		}
		for _, a := range errAlts {
			if a.own || (a.val != nil && p.c20OwnField(a.where, a.val, "Err")) {
				continue
			}
			what := "left unset"
			if a.val != nil {
				what = p.describe(a.val)
			}
			problems = append(problems, "Err is "+what+", not the Err of the response being broadcast")
		}
		for _, a := range pkgAlts {
			switch {
			case a.own:
				problems = append(problems, "the package being broadcast is sent as it is, not a RawPackage.DeepCopy(): receivers share the file map")
				continue
			case a.val == nil || isNilConst(stripConv(a.val)):
				// only when the pulled package is nil
				isNil := false
				for _, wf := range a.facts {
					x, trueMeansNonNil, ok := errNilTest(wf.f.Cond)
					if ok && wf.f.Pol != trueMeansNonNil && p.c20OwnField(wf.where, x, "RawPackage") {
						isNil = true
					}
				}
				if !isNil {
					problems = append(problems, "nil is sent although the pulled package may be non-nil")
				}
				continue
			}
			v := stripConv(a.val)
			call, _ := asCall(v)
			if call == nil || !isCallTo(call.Common(), c20RawPkgDC) {
				problems = append(problems, "sent package "+p.describe(v)+" is not the result of RawPackage.DeepCopy(): receivers share the file map")
				continue
			}
			if !p.c20OwnField(a.where, callRecv(call.Common()), "RawPackage") {
				problems = append(problems, "DeepCopy is not taken of the package being broadcast")
			}
			// the copy is made per receiver: the DeepCopy (or the call of the helper making it) runs
			// inside the broadcast loop
			site := ssa.Instruction(call)
			for w := a.where; w != nil && w.call != nil; w = w.parent {
				site = w.call
			}
			if bc.Loop != nil && !bc.Loop.Body[site.Block()] {
				problems = append(problems, "DeepCopy at "+p.IPos(call)+" is made once outside the loop: all receivers get the same copy")
			} else if a.stale && !p.c20OwnNilnessContradicts(a.carry) {
				problems = append(problems, "the DeepCopy made at "+p.IPos(call)+" for one receiver can still be in the response variable when the next receiver is served (the variable outlives the iteration and is not reassigned on every way through the loop)")
			}
		}
		if len(problems) == 0 {
			o.OK()
		} else {
			o.Fail("%s", strings.Join(problems, "; "))
		}
	}
	// DeepCopy really copies
	if fn := c.MustFunc(pkgPkgTypes, "(*RawPackage).DeepCopy"); fn != nil {
		o := c.Ob(fn, "RawPackage.DeepCopy", nil, "RawPackage.DeepCopy returns a new RawPackage whose Files is Files.DeepCopy() of the receiver's Files")
		var problems []string
		n := 0
		for _, rc := range p.returnCases(fn) {
			n++
			a, isAlloc := stripConv(rc.Results[0]).(*ssa.Alloc)
			if !isAlloc {
				problems = append(problems, "does not return a newly allocated RawPackage")
				continue
			}
			fields, _, _ := compositeFields(a)
			call, _ := asCall(fields["Files"])
			if call == nil || !isCallTo(call.Common(), c20FilesDC) {
				problems = append(problems, "Files of the copy is "+p.describe(fields["Files"])+", not Files.DeepCopy(): the copy shares the file map")
				continue
			}
			if !c20ParamField(p, fn, callRecv(call.Common()), "Files") {
				problems = append(problems, "Files.DeepCopy is not taken of the receiver's Files")
			}
		}
		if n == 0 {
			problems = append(problems, "no return")
		}
		if len(problems) == 0 {
			o.OK()
		} else {
			o.Fail("%s", strings.Join(problems, "; "))
		}
	}
	if fn := c.MustFunc(pkgPkgTypes, "(Files).DeepCopy"); fn != nil {
		o := c.Ob(fn, "Files.DeepCopy", nil, "Files.DeepCopy returns a new map holding, for every key of the receiver, a newly allocated byte slice with the copied content")
		problems := c20CheckFilesDeepCopy(p, fn)
		if len(problems) == 0 {
			o.OK()
		} else {
			o.Fail("%s", strings.Join(problems, "; "))
		}
	}
}

func c20CheckFilesDeepCopy(p *Program, fn *ssa.Function) (problems []string) {
	if len(fn.Params) != 1 {
		return []string{"unexpected signature"}
	}
	recv := fn.Params[0]
	var newMap *ssa.MakeMap
	for _, rc := range p.returnCases(fn) {
		mm, ok := stripConv(p.c12Resolve(rc.Results[0])).(*ssa.MakeMap)
		if !ok {
			return []string{"does not return a freshly made map (" + p.describe(rc.Results[0]) + ")"}
		}
		if newMap != nil && newMap != mm {
			return []string{"returns different maps on different paths"}
		}
		newMap = mm
	}
	if newMap == nil {
		return []string{"no return"}
	}
	// the loop over the receiver
	var rng *ssa.Range
	for _, r := range referrersOf(recv) {
		if x, ok := r.(*ssa.Range); ok {
			rng = x
		}
	}
	if rng == nil {
		return []string{"does not range over the receiver"}
	}
	var key, val ssa.Value
	var next *ssa.Next
	for _, r := range referrersOf(rng) {
		if nx, ok := r.(*ssa.Next); ok {
			next = nx
			for _, e := range referrersOf(nx) {
				if ex, ok := e.(*ssa.Extract); ok {
					switch ex.Index {
					case 1:
						key = ex
					case 2:
						val = ex
					}
				}
			}
		}
	}
	if next == nil || key == nil || val == nil {
		return []string{"range over the receiver does not use key and value"}
	}
	l := innermostLoop(fn, next.Block())
	if l == nil {
		return []string{"range loop not found"}
	}
	var upd *ssa.MapUpdate
	nUpd := 0
	for _, r := range referrersOf(newMap) {
		if mu, ok := r.(*ssa.MapUpdate); ok && mu.Map == ssa.Value(newMap) {
			nUpd++
			upd = mu
		}
	}
	if nUpd != 1 {
		return []string{fmt.Sprintf("%d stores into the new map (expected exactly one, inside the loop)", nUpd)}
	}
	if !l.Body[upd.Block()] || !dominatesAllTails(upd.Block(), l) {
		problems = append(problems, "an entry is not stored for every key of the receiver")
	}
	if ok, at := p.loopEarlyExitsOnly(l, func(*ssa.Return) bool { return false }); !ok {
		problems = append(problems, "the copy loop can be left early (return at "+at+")")
	}
	if upd.Key != key {
		problems = append(problems, "entry is stored under "+p.describe(upd.Key)+", not under the key being visited")
	}
	// the stored value is a fresh copy of val
	stored := stripConv(upd.Value)
	fresh := false
	switch x := stored.(type) {
	case *ssa.MakeSlice:
		// needs copy(x, val) before the store, and len(x) == len(val)
		lenOK := false
		if lc, ok := x.Len.(*ssa.Call); ok {
			if bi, isB := lc.Call.Value.(*ssa.Builtin); isB && bi.Name() == "len" && lc.Call.Args[0] == val {
				lenOK = true
			}
		}
		copied := false
		for _, r := range referrersOf(x) {
			if args, ok := builtinCall(r, "copy"); ok && len(args) == 2 && args[0] == ssa.Value(x) && args[1] == val {
				if r.Block() == upd.Block() && instrIndex(r) < instrIndex(upd) || r.Block() != upd.Block() && r.Block().Dominates(upd.Block()) {
					copied = true
				}
			}
		}
		switch {
		case !lenOK:
			problems = append(problems, "new slice does not have the length of the source slice")
		case !copied:
			problems = append(problems, "content is not copied into the new slice before it is stored")
		default:
			fresh = true
		}
	case *ssa.Call:
		id := calleeID(x.Common())
		switch {
		case id == "bytes.Clone" || id == "slices.Clone":
			fresh = len(x.Call.Args) == 1 && x.Call.Args[0] == val
		case id == "builtin:append" && len(x.Call.Args) == 2:
			// append([]byte(nil), v...) / append([]byte{}, v...)
			first := stripConv(x.Call.Args[0])
			_, isEmptyLit := first.(*ssa.Slice)
			fresh = (isNilConst(first) || isEmptyLit) && x.Call.Args[1] == val
		}
		if !fresh {
			problems = append(problems, "stored value "+p.describe(stored)+" is not a recognised fresh copy of the visited value")
		}
	default:
		problems = append(problems, "stored value "+p.describe(stored)+" is not a newly allocated slice: the copy shares file contents with the original")
	}
	_ = fresh
	return problems
}

func c20r6(c *Ctx) {
	p := c.P
	bcs := c20Broadcasts(p)
	if len(bcs) == 0 {
		c.AnchorLost("send to an element of RequestManager.inFlight[image]")
	}
	for _, bc := range bcs {
		o := c.Ob(bc.Fn, "delete-after-broadcast", bc.Send, c.rule.Statement)
		key := bc.Lookup.Index
		isDel := func(in ssa.Instruction) bool {
			args, ok := builtinCall(in, "delete")
			if !ok || len(args) != 2 {
				return false
			}
			_, is := c20IsInFlight(args[0])
			return is && p.strictSame(args[1], key)
		}
		var dels []ssa.Instruction
		for _, b := range bc.Fn.Blocks {
			for _, in := range b.Instrs {
				if isDel(in) {
					dels = append(dels, in)
				}
			}
		}
		var problems []string
		var del ssa.Instruction
		if len(dels) == 0 {
			problems = append(problems, "inFlight[image] is never deleted: every later request for the image appends to a dead entry and waits forever")
		} else {
			del = dels[len(dels)-1]
			if !p.mustFollow(bc.Send, isDel, nil) {
				problems = append(problems, "delete(inFlight, image) does not follow the broadcast on every path")
			}
			if !p.mustFollow(bc.Lookup, isDel, nil) {
				problems = append(problems, "delete(inFlight, image) is skipped on some path through the broadcast function (e.g. when nobody waits)")
			}
			base, _ := c20IsInFlight(bc.Lookup.X)
			for _, d := range dels {
				if bc.Loop != nil && bc.Loop.Body[d.Block()] {
					problems = append(problems, "the entry is deleted inside the broadcast loop at "+p.IPos(d))
				}
				for _, in := range reachableAfter(d, nil) {
					if in == ssa.Instruction(bc.Lookup) {
						problems = append(problems, "the entry is deleted at "+p.IPos(d)+" before its receivers are read: nobody is answered")
					}
				}
				if ok, why := p.LockHeld(d, LockReq{Field: c20Lock, Write: true, Base: base}, 3); !ok {
					problems = append(problems, "delete outside the lock: "+why)
				}
			}
			if ok, why := p.lockNotReleasedBetween(bc.Lookup, del, c20Lock); !ok {
				problems = append(problems, "the lock is released between reading the receivers and deleting the entry (a receiver registered in the gap is deleted unanswered): "+why)
			}
		}
		if len(problems) == 0 {
			o.OK("delete at " + p.IPos(del))
		} else {
			o.Fail("%s", strings.Join(problems, "; "))
		}
	}
}
