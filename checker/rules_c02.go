package main

import (
	"fmt"
	"go/token"
	"go/types"
	"strings"

	"golang.org/x/tools/go/ssa"
)

// C02 — Handover only moves objects forward between revisions.

func init() {
	register(&Property{
		ID: "C02",
		Explanation: "Decides the structural core of C02 on every path of the current source: (R1, shared with C01.R1) the adoption checker reports adoption only under rev<=ownerRev; " +
			"(R2) the revision annotation key is used only by revision readers (annotation of the passed object, parsed) and one writer shape (FormatInt of its argument, written back with SetAnnotations), " +
			"and every call of the writer passes owner.GetRevision() of the caller's owner parameter; (R3) in the adoption block ReleaseController(x) precedes SetControllerReference(owner, x) on the " +
			"same object with no controller/owner added in between, and the patcher implementation copies x's ownerReferences into the object it marshals into the apply patch; " +
			"(R4) status.revision is assigned only while it is 0, to a positive constant without previous revisions, else to (running maximum over every previous revision's non-zero revision) + a positive constant.",
		NotDecided: []string{
			"chains of live revisions interleaving their reconciles (history property)",
			"equal-revision collisions created by hand-made ObjectSets (reported at run time as RevisionCollisionError, see C01.R1)",
			"boxcutter ownerhandling.{Native,Annotation}.ReleaseController clearing the controller flag on every reference (dependency source; thorough-tier sibling cross-check of DESIGN C02.R3 not implemented, trusted base)",
			"whole-object annotation replacement by third parties or by the API server",
		},
		Technique: "SSA guard-fact dataflow + value-identity classes + constant-use enumeration over the workspace + loop/phi pattern for the running maximum",
		Rules: []Rule{
			{ID: "C02.R1", Min: 3, Run: c02r1, Statement: "never adopt newer: every return of the adoption checker that reports adoption is reached only when rev <= ownerRev (shared matcher with C01.R1)"},
			{ID: "C02.R2", Min: 4, Run: c02r2, Statement: "the revision annotation has one writer shape, fed with owner.GetRevision() at every call, and is read only through the revision reader"},
			{ID: "C02.R3", Min: 2, Run: c02r3, Statement: "after adoption there is exactly one controller: ReleaseController(x) precedes SetControllerReference(owner, x), nothing re-adds a controller in between, and the apply patch carries x's ownerReferences"},
			{ID: "C02.R4", Min: 3, Run: c02r4, Statement: "status.revision is set once (only while 0): a positive constant without previous revisions, else max(previous revisions)+k, k>=1, after every previous revision reported a non-zero revision"},
		},
	})
}

// ---------------------------------------------------------------------------------------------
// Uses of the revision annotation key

type c02RevUses struct {
	key     string
	readers map[*ssa.Function][]*ssa.Lookup
	writers map[*ssa.Function][]*ssa.MapUpdate
	others  []ssa.Instruction
}

func (u *c02RevUses) isReader(fn *ssa.Function) bool { return u != nil && len(u.readers[fn]) > 0 }
func (u *c02RevUses) isWriter(fn *ssa.Function) bool { return u != nil && len(u.writers[fn]) > 0 }

func c02ScanRevisionUses(p *Program, key string) *c02RevUses {
	u := &c02RevUses{key: key, readers: map[*ssa.Function][]*ssa.Lookup{}, writers: map[*ssa.Function][]*ssa.MapUpdate{}}
	if key == "" {
		return u
	}
	for _, fn := range p.productFuncs() {
		for _, b := range fn.Blocks {
			for _, in := range b.Instrs {
				var ops []*ssa.Value
				ops = in.Operands(ops)
				uses := false
				for _, op := range ops {
					if op != nil && *op != nil && isStringConst(*op, key) {
						uses = true
					}
				}
				if !uses {
					continue
				}
				switch x := in.(type) {
				case *ssa.Lookup:
					if isStringConst(x.Index, key) {
						u.readers[fn] = append(u.readers[fn], x)
						continue
					}
				case *ssa.MapUpdate:
					if isStringConst(x.Key, key) && !isStringConst(x.Value, key) {
						u.writers[fn] = append(u.writers[fn], x)
						continue
					}
				}
				u.others = append(u.others, in)
			}
		}
	}
	return u
}

// ---------------------------------------------------------------------------------------------

func c02r1(c *Ctx) {
	p := c.P
	m := c01ModelOf(p)
	if !m.reportAnchors(c) {
		return
	}
	for _, fn := range m.impls {
		c.Visit(fn)
		l := c01LadderOf(p, m, fn)
		if l == nil {
			c.AnchorLost("parameters of " + shortFuncID(fn))
			continue
		}
		for _, rc := range p.returnCases(fn) {
			if len(rc.Results) != 2 {
				continue
			}
			r0, isConst := constBool(stripConv(rc.Results[0]))
			if isConst && !r0 {
				continue
			}
			o := c.Ob(fn, "return-adopt", rc.Ret, c.rule.Statement).Require("rev <= ownerRev")
			if !isConst {
				o.Unknown("the adoption result %s is not a constant", p.describe(rc.Results[0]))
				continue
			}
			if ok, why := l.neverNewer(rc); ok {
				o.OK(why)
			} else {
				o.Fail("%s", why)
			}
		}
	}
}

// annotationsOf: v is obj.GetAnnotations() (or a phi of it with a fresh map); returns obj.
func annotationsOf(v ssa.Value, d int) ssa.Value {
	v = stripConv(v)
	if call, idx := asCall(v); call != nil && idx == -1 && calleeName(call.Common()) == "GetAnnotations" {
		return stripConv(callRecv(call.Common()))
	}
	if ph, ok := v.(*ssa.Phi); ok && d < 3 {
		var obj ssa.Value
		for _, e := range ph.Edges {
			if _, isMM := stripConv(e).(*ssa.MakeMap); isMM {
				continue
			}
			o := annotationsOf(e, d+1)
			if o == nil || (obj != nil && o != obj) {
				return nil
			}
			obj = o
		}
		return obj
	}
	return nil
}

func c02r2(c *Ctx) {
	p := c.P
	m := c01ModelOf(p)
	if !m.reportAnchors(c) {
		return
	}
	u := m.revUses
	if len(u.readers) == 0 {
		c.AnchorLost("a reader of the revision annotation " + u.key)
	}
	if len(u.writers) == 0 {
		c.AnchorLost("a writer of the revision annotation " + u.key)
	}
	// (a) readers
	for _, fn := range p.productFuncs() {
		lks := u.readers[fn]
		if len(lks) == 0 {
			continue
		}
		o := c.Ob(fn, "revision-reader", lks[0], "the revision reader returns the parsed annotation of the object it is given (0 when absent)")
		var problems []string
		for _, lk := range lks {
			obj := annotationsOf(lk.X, 0)
			if _, isP := obj.(*ssa.Parameter); !isP {
				problems = append(problems, "annotation is looked up in "+p.describe(lk.X)+", not in <parameter>.GetAnnotations()")
			}
		}
		res := fn.Signature.Results()
		if res.Len() != 2 || res.At(0).Type().String() != "int64" || res.At(1).Type().String() != "error" {
			problems = append(problems, "reader does not return (int64, error)")
		} else {
			for _, rc := range p.returnCases(fn) {
				r0 := stripConv(rc.Results[0])
				if n, ok := constInt(r0); ok {
					if n != 0 {
						problems = append(problems, fmt.Sprintf("returns the constant %d at %s", n, p.IPos(rc.Ret)))
					}
					continue
				}
				pc, idx := asCall(r0)
				if pc == nil || idx != 0 || !isCallTo(pc.Common(), "strconv.ParseInt") {
					problems = append(problems, "returns "+p.describe(r0)+", not strconv.ParseInt(<annotation>) at "+p.IPos(rc.Ret))
					continue
				}
				lk, isLk := stripConv(pc.Common().Args[0]).(*ssa.Lookup)
				if !isLk || !isStringConst(lk.Index, u.key) {
					problems = append(problems, "parses "+p.describe(pc.Common().Args[0])+", not the revision annotation")
				}
				if b, ok := constInt(pc.Common().Args[1]); !ok || b != 10 {
					problems = append(problems, "annotation is not parsed base 10 (the writer formats base 10)")
				}
			}
		}
		if len(problems) == 0 {
			o.OK()
		} else {
			o.Fail("%s", strings.Join(problems, "; "))
		}
	}
	// (b) writers and (c) their call sites
	for _, fn := range p.productFuncs() {
		mus := u.writers[fn]
		if len(mus) == 0 {
			continue
		}
		o := c.Ob(fn, "revision-writer", mus[0], "the revision writer stores FormatInt(<its revision argument>, 10) under the annotation key of <its object argument> and writes the map back")
		var problems []string
		var revParam *ssa.Parameter
		for _, mu := range mus {
			obj := annotationsOf(mu.Map, 0)
			if _, isP := obj.(*ssa.Parameter); !isP {
				problems = append(problems, "annotation is stored into "+p.describe(mu.Map)+", not into <parameter>.GetAnnotations()")
				continue
			}
			fc, idx := asCall(mu.Value)
			if fc == nil || idx != -1 || !isCallTo(fc.Common(), "strconv.FormatInt") {
				problems = append(problems, "stored value is "+p.describe(mu.Value)+", not strconv.FormatInt(<revision parameter>, 10)")
				continue
			}
			prm, isP := stripConv(fc.Common().Args[0]).(*ssa.Parameter)
			if b, ok := constInt(fc.Common().Args[1]); !isP || !ok || b != 10 {
				problems = append(problems, "stored value is "+p.describe(mu.Value)+", not strconv.FormatInt(<revision parameter>, 10)")
				continue
			}
			revParam = prm
			follows := p.mustFollow(mu, func(in ssa.Instruction) bool {
				ci, ok := in.(ssa.CallInstruction)
				if !ok || calleeName(ci.Common()) != "SetAnnotations" || stripConv(callRecv(ci.Common())) != obj {
					return false
				}
				return stripConv(callArgs(ci.Common())[0]) == stripConv(mu.Map)
			}, nil)
			if !follows {
				problems = append(problems, "the updated annotation map is not written back with SetAnnotations on every path")
			}
		}
		if len(problems) > 0 {
			o.Fail("%s", strings.Join(problems, "; "))
			continue
		}
		o.OK()
		if p.addressTaken(fn) {
			c.Ob(fn, "revision-writer-address-taken", nil, "every call of the revision writer is visible").Fail("the revision writer is used as a value; its callers cannot be enumerated")
		}
		idx := -1
		for i, x := range fn.Params {
			if x == revParam {
				idx = i
			}
		}
		for _, cl := range p.callersOf(fn) {
			if isNonProductPkg(funcPkgPath(cl.Fn)) {
				continue
			}
			oo := c.Ob(cl.Fn, "revision-written", cl.Instr, "the revision recorded on an object is the revision of the owner the caller reconciles for").Require("argument == <owner parameter>.GetRevision()")
			v := cl.Common.Args[idx]
			gc, gi := asCall(v)
			if gc == nil || gi != -1 || calleeName(gc.Common()) != "GetRevision" {
				oo.Fail("the recorded revision is %s, not owner.GetRevision()", p.describe(v))
				continue
			}
			if _, isP := stripConv(callRecv(gc.Common())).(*ssa.Parameter); !isP {
				oo.Fail("the recorded revision is %s; its receiver is not the caller's owner parameter", p.describe(v))
				continue
			}
			// in the reconcile function the owner must be the owner handed to the adoption checker
			ok := true
			for _, inv := range m.invokes {
				if inv.Fn == cl.Fn && !p.sameValue(inv.Common.Args[0], callRecv(gc.Common())) {
					ok = false
				}
			}
			if !ok {
				oo.Fail("the recorded revision %s belongs to a different owner than the one handed to the adoption checker", p.describe(v))
				continue
			}
			oo.OK(p.describe(v))
		}
	}
	// (d) anything else touching the key
	for _, in := range u.others {
		c.Ob(in.Parent(), "revision-key-use", in, "the revision annotation key is used only by the reader (map lookup) and the writer (map update)").
			Fail("unreviewed use of the revision annotation key %q: %s", u.key, in.String())
	}
}

// ---------------------------------------------------------------------------------------------
// R3

const applyPatchType = "application/apply-patch+yaml"

func c02r3(c *Ctx) {
	p := c.P
	m := c01ModelOf(p)
	if !m.reportAnchors(c) {
		return
	}
	for _, inv := range m.invokes {
		r := c01RecOf(inv)
		if r == nil {
			continue
		}
		fn := r.fn
		c.Visit(fn)
		var adopted []ssa.Value
		nSet := 0
		for _, cc := range callsIn(fn) {
			if calleeName(cc.Common) != "SetControllerReference" || !cc.Common.IsInvoke() {
				continue
			}
			args := callArgs(cc.Common)
			if len(args) != 2 || !r.sameOrCopyOfChecked(p, args[1]) {
				continue
			}
			nSet++
			x := args[1]
			adopted = append(adopted, x)
			o := c.Ob(fn, "release-before-set-controller", cc.Instr, "ReleaseController(x) precedes SetControllerReference(owner, x) on the same object, and nothing in between adds a controller or owner to x").
				Require("ReleaseController(x) on every path before", "owner == owner.ClientObject() of the checked owner")
			oc, _ := asCall(args[0])
			if oc == nil || calleeName(oc.Common()) != "ClientObject" || !p.sameValue(callRecv(oc.Common()), r.owner) {
				o.Fail("the new controller %s is not <checked owner>.ClientObject()", p.describe(args[0]))
				continue
			}
			var release ssa.Instruction
			for _, rc := range callsIn(fn) {
				if calleeName(rc.Common) == "ReleaseController" && rc.Common.IsInvoke() && len(callArgs(rc.Common)) == 1 && p.sameValue(callArgs(rc.Common)[0], x) {
					ri := rc.Instr
					if p.mustPrecede(cc.Instr, func(in ssa.Instruction) bool { return in == ri }) {
						release = ri
					}
				}
			}
			if release == nil {
				o.Fail("SetControllerReference(owner, %s) is not preceded on every path by ReleaseController of the same object: the former controller keeps its controller flag (two controllers, or the call fails with AlreadyOwnedError)", p.describe(x))
				continue
			}
			bad := ""
			for _, in := range between(release, cc.Instr) {
				ci, ok := in.(ssa.CallInstruction)
				if !ok {
					continue
				}
				n := calleeName(ci.Common())
				if n == "SetControllerReference" || n == "SetOwnerReference" || n == "SetOwnerReferences" {
					for _, a := range append(callArgs(ci.Common()), callRecv(ci.Common())) {
						if a != nil && p.sameValue(a, x) {
							bad = n + " at " + p.IPos(in)
						}
					}
				}
			}
			if bad != "" {
				o.Fail("between ReleaseController and SetControllerReference the owner list of the object is extended again by %s", bad)
				continue
			}
			o.OK("released at " + p.IPos(release))
		}
		if nSet == 0 {
			c.Ob(fn, "adoption-sets-controller", inv.Instr, "the adoption block makes the owner the controller of the checked object").
				Fail("no SetControllerReference(owner, <checked object or its copy>) in the function that invokes the adoption checker")
			continue
		}
		// the patch must carry the owner list of the adopted object
		for _, cc := range callsIn(fn) {
			impls := c01WriterIfaceImpls(p, cc.Common)
			if len(impls) == 0 {
				continue
			}
			argIdx := -1
			for i, a := range callArgs(cc.Common) {
				for _, x := range adopted {
					if p.sameValue(a, x) {
						argIdx = i
					}
				}
			}
			it := ifaceOf(cc.Common.Value)
			for _, impl := range p.implementationsOf(it, cc.Common.Method.Name()) {
				c.Visit(impl)
				o := c.Ob(impl, "apply-patch-carries-owner-list", nil, "the apply patch is marshalled from an object that received the adopted object's ownerReferences").
					Require("D.SetOwnerReferences(<adopted>.GetOwnerReferences()) precedes json.Marshal of D (or of its deep copy)", "the marshalled bytes are the apply patch")
				if argIdx < 0 {
					o.Fail("the adopted object is not passed to %s", calleeName(cc.Common))
					continue
				}
				if argIdx+1 >= len(impl.Params) {
					o.Unknown("parameter mapping of %s not recognised", shortFuncID(impl))
					continue
				}
				if ok, why := c02PatchCarriesOwners(p, impl, impl.Params[argIdx+1]); ok {
					o.OK(why)
				} else {
					o.Fail("%s", why)
				}
			}
		}
	}
}

func c02PatchCarriesOwners(p *Program, impl *ssa.Function, adopted *ssa.Parameter) (bool, string) {
	found := false
	for _, ws := range allWriterSites([]*ssa.Function{impl}) {
		if ws.Verb != "Patch" {
			continue
		}
		args := callArgs(ws.Call.Common)
		rp, _ := asCall(args[2])
		if rp == nil || !isCallTo(rp.Common(), pkgClient+".RawPatch") || !isStringConst(rp.Common().Args[0], applyPatchType) {
			continue
		}
		found = true
		mc, idx := asCall(rp.Common().Args[1])
		if mc == nil || idx != 0 || !isCallTo(mc.Common(), "encoding/json.Marshal") {
			return false, "the apply patch body at " + p.IPos(ws.Call.Instr) + " is not the result of json.Marshal"
		}
		if !p.errOfCallIsNil(p.FactsAt(ws.Call.Block()), mc) {
			return false, "the apply patch at " + p.IPos(ws.Call.Instr) + " is sent without checking the json.Marshal error"
		}
		pv := stripConv(mc.Common().Args[0])
		// candidates: the marshalled object itself, and the object it was deep-copied from
		type cand struct {
			obj    ssa.Value
			before ssa.Instruction
		}
		cands := []cand{{pv, mc}}
		if dc, di := asCall(pv); dc != nil && di == -1 && calleeName(dc.Common()) == "DeepCopy" {
			cands = append(cands, cand{stripConv(callRecv(dc.Common())), dc})
		}
		ok := false
		var setAt ssa.Instruction
		for _, cd := range cands {
			for _, cc := range callsIn(impl) {
				if calleeName(cc.Common) != "SetOwnerReferences" || !p.sameValue(callRecv(cc.Common), cd.obj) {
					continue
				}
				src, si := asCall(callArgs(cc.Common)[0])
				if src == nil || si != -1 || calleeName(src.Common()) != "GetOwnerReferences" || !isParam(callRecv(src.Common()), adopted) {
					continue
				}
				site := cc.Instr
				if p.mustPrecede(cd.before, func(in ssa.Instruction) bool { return in == site }) {
					ok = true
					setAt = site
				}
			}
		}
		if !ok {
			return false, "the object marshalled into the apply patch at " + p.IPos(ws.Call.Instr) + " does not receive " + adopted.Name() + ".GetOwnerReferences() before it is copied/marshalled: the patch would not carry the released former controllers and the new controller"
		}
		// no later overwrite of the owner list on the marshalled object or its origin
		for _, in := range between(setAt, mc) {
			ci, isCall := in.(ssa.CallInstruction)
			if !isCall || in == setAt {
				continue
			}
			n := calleeName(ci.Common())
			if n != "SetOwnerReferences" && n != "SetControllerReference" && n != "SetOwnerReference" {
				continue
			}
			if n == "SetOwnerReferences" {
				// setting the adopted object's list again is harmless
				if src, si := asCall(callArgs(ci.Common())[0]); src != nil && si == -1 && calleeName(src.Common()) == "GetOwnerReferences" && isParam(callRecv(src.Common()), adopted) {
					continue
				}
			}
			for _, cd := range cands {
				for _, a := range append(callArgs(ci.Common()), callRecv(ci.Common())) {
					if a != nil && p.sameValue(a, cd.obj) {
						return false, "the owner list copied from the adopted object is modified again at " + p.IPos(in) + " before marshalling"
					}
				}
			}
		}
		return true, "owner list copied at " + p.IPos(setAt) + ", marshalled at " + p.IPos(mc)
	}
	if !found {
		return false, "no apply patch (client.RawPatch(ApplyPatchType, …)) found in " + shortFuncID(impl)
	}
	return false, ""
}

// ---------------------------------------------------------------------------------------------
// R4 revision numbers

func c02r4(c *Ctx) {
	p := c.P
	n := 0
	// every invoke of an interface method whose implementations store their argument into a
	// `.Status.Revision` field of an ObjectSet API type (status sites) or into `.Spec.Revision` of an
	// ObjectSetPhase API type (copies handed to delegated phases)
	for _, fn := range p.productFuncs() {
		if funcPkgPath(fn) == pkgAdapters {
			continue
		}
		for _, cc := range callsIn(fn) {
			if !cc.Common.IsInvoke() || len(cc.Common.Args) != 1 || cc.Common.Args[0].Type().String() != "int64" {
				continue
			}
			switch c02RevisionFieldTarget(p, cc.Common) {
			case "Status":
				n++
				if funcPkgPath(fn) != pkgObjectSets {
					c.Ob(fn, "foreign-status-revision", cc.Instr, "status.revision of an ObjectSet is assigned only by the ObjectSet controller").
						Fail("status.revision is assigned outside %s", pkgObjectSets)
					continue
				}
				// the set-once / max+1 discipline of the site itself is decided by the matcher shared
				// with C07.R6 (one implementation, reported under both ids; it accepts the max builtin,
				// early-return and equivalent-comparison forms)
			case "Spec":
				// the phase's spec.revision is what a delegated phase compares object revisions against
				o := c.Ob(fn, "phase-revision-copied", cc.Instr, "a delegated ObjectSetPhase is created with the revision of its ObjectSet").Require("argument == <ObjectSet parameter>.GetRevision()")
				gc, gi := asCall(cc.Common.Args[0])
				if gc == nil || gi != -1 || calleeName(gc.Common()) != "GetRevision" {
					o.Fail("the phase revision is %s, not objectSet.GetRevision()", p.describe(cc.Common.Args[0]))
					continue
				}
				if _, isP := stripConv(callRecv(gc.Common())).(*ssa.Parameter); !isP || c02RevisionGetterSource(p, gc.Common()) != "Status" {
					o.Fail("the phase revision %s is not the status revision of the ObjectSet parameter", p.describe(cc.Common.Args[0]))
					continue
				}
				o.OK(p.describe(cc.Common.Args[0]))
			}
		}
	}
	if n == 0 {
		c.AnchorLost("assignments of an ObjectSet's status.revision (interface method storing into .Status.Revision)")
	}
	c07r6(c)
	// direct field stores that bypass the accessor (anything but a one-argument setter storing its argument)
	for _, fn := range p.productFuncs() {
		for _, b := range fn.Blocks {
			for _, in := range b.Instrs {
				st, ok := in.(*ssa.Store)
				if !ok || c02RevisionFieldPath(st.Addr) != "Status" {
					continue
				}
				isSetter := fn.Signature.Recv() != nil && len(fn.Params) == 2 && stripConv(st.Val) == ssa.Value(fn.Params[1])
				if isSetter {
					continue
				}
				c.Ob(fn, "direct-status-revision-store", st, "status.revision of an ObjectSet is assigned only through the accessor in the revision reconciler").
					Fail("status.revision is assigned directly (%s) outside a setter; the set-once / max+1 discipline is bypassed", p.describe(st.Val))
			}
		}
	}
}

// c02RevisionFieldTarget: "Status" / "Spec" when every workspace implementation of the invoked
// one-argument interface method stores its argument into <ObjectSet…>.Status.Revision /
// <ObjectSetPhase…>.Spec.Revision; "" otherwise.
func c02RevisionFieldTarget(p *Program, cc *ssa.CallCommon) string {
	it := ifaceOf(cc.Value)
	if it == nil {
		return ""
	}
	out := ""
	for _, impl := range p.implementationsOf(it, cc.Method.Name()) {
		t := ""
		for _, b := range impl.Blocks {
			for _, in := range b.Instrs {
				st, ok := in.(*ssa.Store)
				if !ok || len(impl.Params) < 2 || stripConv(st.Val) != ssa.Value(impl.Params[len(impl.Params)-1]) {
					continue
				}
				t = c02RevisionFieldPath(st.Addr)
			}
		}
		if t == "" || (out != "" && out != t) {
			return ""
		}
		out = t
	}
	return out
}

// c02RevisionFieldPath: addr is &X.Status.Revision / &X.Spec.Revision of a core API type.
func c02RevisionFieldPath(addr ssa.Value) string {
	fa, ok := addr.(*ssa.FieldAddr)
	if !ok || fieldName(fa.X.Type(), fa.Field) != "Revision" {
		return ""
	}
	outer, ok := fa.X.(*ssa.FieldAddr)
	if !ok {
		return ""
	}
	n := fieldName(outer.X.Type(), outer.Field)
	if n != "Status" && n != "Spec" {
		return ""
	}
	// the Status/Spec struct of an (Cluster)ObjectSet / (Cluster)ObjectSetPhase API type
	tn := strings.TrimPrefix(strings.TrimPrefix(namedTypeString(fa.X.Type()), pkgCoreV1+"."), "Cluster")
	if !strings.HasPrefix(tn, "ObjectSet") {
		return ""
	}
	return n
}

// c02RevisionGetterSource: the invoked zero-argument getter returns .Status.Revision ("Status") or
// .Spec.Revision ("Spec") in every workspace implementation that can be the receiver. The
// receiver's static type alone may be a narrow, locally declared interface that types outside the
// ObjectSet family satisfy as well; what decides is what can arrive: a parameter is followed to the
// arguments at its static call sites (bounded), and an implementation counts only if it also
// satisfies the static type the value has there.
func c02RevisionGetterSource(p *Program, cc *ssa.CallCommon) string {
	if !cc.IsInvoke() {
		return ""
	}
	it := ifaceOf(cc.Value)
	if it == nil {
		return ""
	}
	if s := c02GetterSourceAmong(p, it, cc.Method.Name(), nil); s != "" {
		return s
	}
	out := ""
	for _, org := range p.c03Origins(cc.Value, 3) {
		bound := ifaceOf(org)
		if bound == nil || org == stripConv(cc.Value) {
			return ""
		}
		s := c02GetterSourceAmong(p, it, cc.Method.Name(), bound)
		if s == "" || (out != "" && out != s) {
			return ""
		}
		out = s
	}
	return out
}

// c02GetterSourceAmong: what the getter returns in every implementation of `it` (that also
// implements `bound`, when given); "" when they differ, none exists, or a shape is not recognised.
func c02GetterSourceAmong(p *Program, it *types.Interface, method string, bound *types.Interface) string {
	out := ""
	for _, impl := range p.implementationsOf(it, method) {
		if bound != nil {
			rt := impl.Signature.Recv().Type()
			if !types.Implements(rt, bound) {
				continue
			}
		}
		t := ""
		for _, rc := range p.returnCases(impl) {
			if len(rc.Results) != 1 {
				return ""
			}
			u, ok := stripConv(rc.Results[0]).(*ssa.UnOp)
			if !ok || u.Op != token.MUL {
				return ""
			}
			t = c02RevisionFieldPath(u.X)
		}
		if t == "" || (out != "" && out != t) {
			return ""
		}
		out = t
	}
	return out
}

func c02SetRevisionSite(c *Ctx, fn *ssa.Function, cc Call) {
	p := c.P
	site := cc.Instr
	recv := cc.Common.Value
	arg := stripConv(cc.Common.Args[0])
	fs := p.FactsAt(site.Block())
	isOwnRev := func(v ssa.Value) bool {
		call, idx := asCall(v)
		return call != nil && idx == -1 && calleeName(call.Common()) == "GetRevision" && p.sameValue(callRecv(call.Common()), recv)
	}
	isPrevList := func(v ssa.Value) bool {
		call, idx := asCall(v)
		return call != nil && idx == -1 && calleeName(call.Common()) == "GetPrevious" && p.sameValue(callRecv(call.Common()), recv)
	}
	prevEmpty := unknownTri
	for _, f := range fs {
		if x, nonEmptyWhenTrue, ok := lenCmp(f.Cond); ok && isPrevList(x) {
			if f.Pol == nonEmptyWhenTrue {
				prevEmpty = noTri
			} else {
				prevEmpty = yesTri
			}
		}
	}
	kind := "SetRevision-max+k"
	if _, isC := constInt(arg); isC {
		kind = "SetRevision-const"
	}
	o := c.Ob(fn, kind, site, c.rule.Statement)
	var problems []string
	if !p.relFromFacts(fs, isOwnRev, matchConstInt(0)).subsetOf(relEQ) {
		problems = append(problems, "the assignment is not guarded by <objectSet>.GetRevision() == 0: an already assigned revision can be overwritten")
	}
	if k, isC := constInt(arg); isC {
		if k <= 0 {
			problems = append(problems, fmt.Sprintf("constant revision %d is not positive", k))
		}
		if prevEmpty != yesTri {
			problems = append(problems, "a constant revision is assigned although len(GetPrevious()) == 0 is not established: the revision could be lower than a previous revision's")
		}
		if len(problems) == 0 {
			o.OK(fmt.Sprintf("constant %d without previous revisions", k))
		} else {
			o.Fail("%s", strings.Join(problems, "; "))
		}
		return
	}
	// max + k
	add, isAdd := arg.(*ssa.BinOp)
	if !isAdd || add.Op != token.ADD {
		problems = append(problems, "the assigned revision "+p.describe(arg)+" is not <maximum of previous revisions> + k")
		o.Fail("%s", strings.Join(problems, "; "))
		return
	}
	var maxV ssa.Value
	var k int64
	if n, ok := constInt(add.Y); ok {
		maxV, k = add.X, n
	} else if n, ok := constInt(add.X); ok {
		maxV, k = add.Y, n
	}
	if maxV == nil || k < 1 {
		o.Fail("the assigned revision %s does not add a positive constant to the maximum of the previous revisions", p.describe(arg))
		return
	}
	acc, isPhi := stripConv(maxV).(*ssa.Phi)
	if !isPhi {
		o.Unknown("the base %s of the new revision is not a loop-carried maximum", p.describe(maxV))
		return
	}
	// the loop headed by the phi's block
	var loop *Loop
	for _, l := range loopsOf(fn) {
		if l.Head == acc.Block() {
			loop = l
		}
	}
	if loop == nil {
		o.Unknown("the base %s of the new revision is a phi outside a loop header", p.describe(maxV))
		return
	}
	// range over the full previous list: header condition idx < len(S), S == GetPrevious(); site only after the loop ran to completion
	hdrIf, _ := loop.Head.Instrs[len(loop.Head.Instrs)-1].(*ssa.If)
	var ranged, rangeIdx ssa.Value
	if hdrIf != nil {
		if b, ok := hdrIf.Cond.(*ssa.BinOp); ok && b.Op == token.LSS {
			if lc, ok := b.Y.(*ssa.Call); ok && isCallTo(lc.Common(), "builtin:len") {
				ranged, rangeIdx = lc.Common().Args[0], b.X
			}
		}
	}
	if ranged == nil || !isPrevList(ranged) {
		problems = append(problems, "the loop that computes the maximum does not range over <objectSet>.GetPrevious()")
	} else if p.boolFromFacts(fs, hdrIf.Cond) != noTri {
		problems = append(problems, "the assignment is reachable before the loop over the previous revisions has run to completion (break / early exit): later previous revisions are ignored")
	}
	// the per-iteration revision value
	tailSet := map[*ssa.BasicBlock]bool{}
	for _, t := range loop.Tails {
		tailSet[t] = true
	}
	var srs []ssa.Value
	nInit := 0
	for i, e := range acc.Edges {
		from := acc.Block().Preds[i]
		e = stripConv(e)
		if !tailSet[from] {
			nInit++
			if n, ok := constInt(e); !ok || n < 0 {
				problems = append(problems, "the running maximum does not start from a non-negative constant")
			}
			continue
		}
		efs := p.FactsOnEdge(from, acc.Block())
		switch {
		case e == ssa.Value(acc):
			// kept: needs sr <= acc for the sr of this iteration; sr is identified below
			srs = append(srs, nil)
		default:
			srs = append(srs, e)
		}
		_ = efs
	}
	// identify sr: the value assigned on some back edge
	var sr ssa.Value
	for _, s := range srs {
		if s != nil {
			if sr != nil && !p.sameValue(sr, s) {
				problems = append(problems, "the running maximum is updated from different values on different paths")
			}
			sr = s
		}
	}
	if sr == nil {
		problems = append(problems, "the running maximum is never updated inside the loop")
		o.Fail("%s", strings.Join(problems, "; "))
		return
	}
	isSR := func(v ssa.Value) bool { return p.sameValue(v, sr) }
	isAcc := func(v ssa.Value) bool { return stripConv(v) == ssa.Value(acc) }
	for i, e := range acc.Edges {
		from := acc.Block().Preds[i]
		if !tailSet[from] {
			continue
		}
		efs := p.FactsOnEdge(from, acc.Block())
		rel := p.relFromFacts(efs, isSR, isAcc)
		if stripConv(e) == ssa.Value(acc) {
			if !rel.subsetOf(relLT | relEQ) {
				problems = append(problems, fmt.Sprintf("the running maximum is kept on a path where the previous revision's number is only known %s it (must be <=)", rel))
			}
		} else if !rel.subsetOf(relGT | relEQ) {
			problems = append(problems, fmt.Sprintf("the running maximum is replaced on a path where the previous revision's number is only known %s it (must be >=)", rel))
		}
		// wait for unreported revisions: sr != 0 on every back edge
		if !p.relFromFacts(efs, isSR, matchConstInt(0)).subsetOf(relLT | relGT) {
			problems = append(problems, "the loop continues although the previous revision's number may be 0 (not reported yet): the new revision could be computed from an incomplete maximum")
		}
	}
	// sr is X.GetRevision() of the object fetched in this iteration for the ranged element
	src, si := asCall(sr)
	if src == nil || si != -1 || calleeName(src.Common()) != "GetRevision" {
		problems = append(problems, "the value fed into the maximum ("+p.describe(sr)+") is not <previous ObjectSet>.GetRevision()")
	} else {
		prevObj := callRecv(src.Common())
		okRead := false
		for _, gc := range callsIn(fn) {
			g, isCall := gc.Instr.(*ssa.Call)
			if !isCall || !isReaderGet(gc.Common) || !loop.Body[gc.Block()] {
				continue
			}
			out := callArgs(gc.Common)[2]
			oc, _ := asCall(out)
			if !(p.sameValue(out, prevObj) || (oc != nil && calleeName(oc.Common()) == "ClientObject" && p.sameValue(callRecv(oc.Common()), prevObj))) {
				continue
			}
			if !p.errOfCallIsNil(p.FactsAt(src.Block()), g) {
				continue
			}
			// key.Name is the Name of the ranged element
			if c02KeyNamesRangedElem(p, callArgs(gc.Common)[1], ranged, rangeIdx) {
				okRead = true
			}
		}
		if !okRead {
			problems = append(problems, "the previous ObjectSet whose revision is read was not fetched (error-checked Reader.Get in the loop) under the name of the ranged GetPrevious() entry")
		}
	}
	if len(problems) == 0 {
		o.OK(fmt.Sprintf("max over GetPrevious() + %d", k))
	} else {
		o.Fail("%s", strings.Join(problems, "; "))
	}
}

// c02KeyNamesRangedElem: key is (a load of) an ObjectKey literal whose Name is field Name of the
// element of `ranged` at the loop's own index (not of some other element).
func c02KeyNamesRangedElem(p *Program, key ssa.Value, ranged, rangeIdx ssa.Value) bool {
	if ranged == nil || rangeIdx == nil {
		return false
	}
	fields, _, ok := compositeFields(key)
	if !ok {
		return false
	}
	nv, ok := fields["Name"]
	if !ok {
		return false
	}
	base := fieldLoadOf(nv, "Name")
	if base == nil {
		return false
	}
	ia := elemAddrOf(base)
	return ia != nil && p.sameValue(ia.X, ranged) && ia.Index == rangeIdx
}

var _ = types.Typ
