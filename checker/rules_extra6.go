package main

import (
	"fmt"
	"go/types"
	"strings"

	"golang.org/x/tools/go/ssa"
)

// Rules added after the fifth round of seeded changes ("breakage at a distance", DESIGN.md §8).

// ---------------------------------------------------------------------------------------------
// subReconcilerGateRule (C15.R10 / C07.R9 / C10.R8): the controller's sub-reconciler list is a
// pipeline — a step that returns an error or a non-zero result (the revision reconciler's "revision
// still unknown, come back in 10s") stops the steps after it, and the controller hands that result
// back. Two obligations on every controller Reconcile that runs such a list:
//
//	(a) the next step is reached only under err == nil and res.IsZero() of the previous step;
//	(b) the ctrl.Result the controller returns after the list can be the step's result (it is not a
//	    shadowed or reset value).
func subReconcilerGateRule(c *Ctx) {
	p := c.P
	n := 0
	for _, fn := range p.productFuncs() {
		if fn.Parent() != nil || fn.Name() != "Reconcile" || fn.Signature.Recv() == nil || !strings.HasPrefix(funcPkgPath(fn), modPKO+"/internal/controllers") {
			continue
		}
		if fn.Signature.Params().Len() != 2 || namedTypeString(fn.Signature.Params().At(1).Type()) != "sigs.k8s.io/controller-runtime/pkg/reconcile.Request" {
			continue
		}
		for _, call := range callsIn(fn) {
			cc := call.Common
			if !cc.IsInvoke() || cc.Method.Name() != "Reconcile" {
				continue
			}
			site, _ := call.Instr.(*ssa.Call)
			if site == nil {
				continue
			}
			// only invocations inside a loop (the list); a dedicated single step is not a pipeline
			var loop *Loop
			for _, l := range loopsOf(fn) {
				if l.Body[site.Block()] {
					loop = l
				}
			}
			if loop == nil {
				continue
			}
			n++
			// (a) every back edge of the loop knows err == nil and res.IsZero()
			o := c.Ob(fn, "next-step-gated", site, "the next sub-reconciler runs only after the previous one returned no error and a zero result")
			var bad []string
			for _, tail := range loop.Tails {
				fs := p.FactsOnEdge(tail, loop.Head)
				if !p.errOfCallIsNil(fs, site) {
					bad = append(bad, "the call's error is not known to be nil")
				}
				zero := false
				for _, f := range fs {
					if zc, _ := asCall(f.Cond); zc != nil && f.Pol && calleeName(zc.Common()) == "IsZero" {
						if r := callRecv(zc.Common()); r != nil {
							if isSiteResult(p, r, site) {
								zero = true
							}
						}
					}
				}
				if !zero {
					bad = append(bad, "the call's result is not known to be zero (a sub-reconciler that asks to be called again later — e.g. while a previous revision has not reported its number — no longer holds back the steps after it)")
				}
			}
			if len(bad) == 0 {
				o.OK()
			} else {
				o.Fail("%s", strings.Join(dedupe(bad), "; "))
			}
			// (b) the result returned after the list can be the step's result
			o2 := c.Ob(fn, "step-result-returned", site, "the controller returns the ctrl.Result of the sub-reconciler that stopped the list")
			carried := false
			for _, rc := range p.returnCases(fn) {
				if len(rc.Results) != 2 || !canPrecede(site, rc.Ret) {
					continue
				}
				if isSiteResult(p, rc.Results[0], site) {
					carried = true
				}
			}
			if carried {
				o2.OK()
			} else {
				o2.Fail("no return after the sub-reconciler list can carry the result of the sub-reconciler call (shadowed or reset): a RequeueAfter request is dropped, and what waits for it (a revision waiting for its predecessor's number) is never reconciled again")
			}
		}
	}
	if n < 4 {
		c.AnchorLost(fmt.Sprintf("sub-reconciler invocations inside a loop (found %d)", n))
	}
}

const subReconcilerGateStatement = "a sub-reconciler's error or non-zero result stops the list and is what the controller returns"

// ---------------------------------------------------------------------------------------------
// C07.R10: after a hash collision was recorded (status.collisionCount bumped) the pass ends — the new
// hash is computed by the hash reconciler of the next pass from the *unmodified* template. Creating
// in the same pass hashes a template the failed attempt has already mutated.
func collisionBumpEndsPassRule(c *Ctx) {
	p := c.P
	n := 0
	for _, fn := range p.FuncsIn(pkgObjDeploy) {
		for _, call := range callsIn(fn) {
			if calleeName(call.Common) != "SetStatusCollisionCount" {
				continue
			}
			n++
			o := c.Ob(fn, "no-write-after-collision-bump", call.Instr, c.rule.Statement)
			var bad []string
			for _, in := range reachableAfter(call.Instr, nil) {
				ci, ok := in.(ssa.CallInstruction)
				if !ok {
					continue
				}
				if ws, isW := classifyWriter(Call{Instr: ci, Common: ci.Common(), Fn: fn}); isW {
					bad = append(bad, ws.Verb+" at "+p.IPos(in))
				}
			}
			if len(bad) == 0 {
				o.OK()
			} else {
				o.Fail("after the collision counter was bumped this pass still writes (%s): the retry hashes the template the failed attempt already stamped with the ObjectDeployment's labels, so the same user template yields a second ObjectSet", strings.Join(dedupe(bad), ", "))
			}
		}
	}
	if n == 0 {
		c.AnchorLost("SetStatusCollisionCount call in " + pkgObjDeploy)
	}
	// who may set the template hash
	nh := 0
	for _, fn := range p.FuncsIn(pkgObjDeploy) {
		for _, call := range callsIn(fn) {
			if calleeName(call.Common) != "SetStatusTemplateHash" {
				continue
			}
			nh++
			root := fn
			for root.Parent() != nil {
				root = root.Parent()
			}
			o := c.Ob(fn, "template-hash-writer", call.Instr, "status.templateHash is computed in one place (the hash reconciler)")
			if strings.Contains(strings.ToLower(namedTypeString(recvTypeOf(root))), "hashreconciler") {
				o.OK()
			} else {
				o.Fail("status.templateHash is also set outside the hash reconciler: two computations of the hash (here from a template that may already be modified in this pass) can disagree, and one user template then owns two ObjectSets")
			}
		}
	}
	if nh == 0 {
		c.AnchorLost("SetStatusTemplateHash call in " + pkgObjDeploy)
	}
}

func recvTypeOf(fn *ssa.Function) types.Type {
	if r := fn.Signature.Recv(); r != nil {
		return r.Type()
	}
	return types.Typ[types.Invalid]
}

// ---------------------------------------------------------------------------------------------
// C12.R12: "…List" is stripped only from the kind of list objects. The cache keys informers, owner
// sets and event routing by the kind of single objects; a kind that merely ends in "List" (a CRD
// IPAllowList) must not be truncated when it is watched or read.
func listSuffixOnlyForListsRule(c *Ctx) {
	p := c.P
	n := 0
	listIface := func(t types.Type) bool {
		return namedTypeString(t) == pkgClient+".ObjectList"
	}
	for _, fn := range p.FuncsIn(pkgDynCache) {
		for _, call := range callsIn(fn) {
			if id := calleeID(call.Common); (id != "strings.TrimSuffix" && id != "strings.CutSuffix") || len(call.Common.Args) != 2 {
				continue
			}
			if s, ok := constString(call.Common.Args[1]); !ok || s != "List" {
				continue
			}
			n++
			o := c.Ob(fn, "trim-List-suffix", call.Instr, c.rule.Statement)
			root := fn
			for root.Parent() != nil {
				root = root.Parent()
			}
			onlyLists := false
			for _, prm := range root.Params {
				if listIface(prm.Type()) {
					onlyLists = true
				}
			}
			if onlyLists {
				o.OK()
			} else {
				o.Fail("the kind is stripped of a \"List\" suffix in a function that does not take a client.ObjectList: watching or reading a single object whose kind ends in List is tracked under the truncated kind (no events routed, informer of another kind started and stopped)")
			}
		}
	}
	if n == 0 {
		c.AnchorLost("strings.TrimSuffix(kind, \"List\") in " + pkgDynCache)
	}
}

// ---------------------------------------------------------------------------------------------
// C13.R13: every conditional-path glob is evaluated by the glob engine for every path — no
// pre-filter decides on its own reading of the pattern syntax which globs can match.
func everyGlobEvaluatedRule(c *Ctx) {
	p := c.P
	n := 0
	for _, fn := range p.FuncsIn(pkgPkgRender) {
		for _, call := range callsIn(fn) {
			id := calleeID(call.Common)
			if !strings.Contains(id, "/doublestar") || (!strings.HasSuffix(id, ".PathMatch") && !strings.HasSuffix(id, ".Match")) {
				continue
			}
			var loop *Loop
			for _, l := range loopsOf(fn) {
				if l.Body[call.Instr.Block()] {
					loop = l
				}
			}
			if loop == nil {
				continue
			}
			n++
			o := c.Ob(fn, "glob-evaluated-every-iteration", call.Instr, c.rule.Statement)
			ok := true
			for _, tail := range loop.Tails {
				last := tail.Instrs[len(tail.Instrs)-1]
				if !p.mustPrecedeWithin(last, call.Instr, loop) {
					ok = false
				}
			}
			// a verdict taken inside the loop (leaving it other than by exhaustion) needs the engine's answer too
			earlyExit := ""
			for b := range loop.Body {
				if b == loop.Head || len(b.Instrs) == 0 {
					continue
				}
				for _, s := range b.Succs {
					if !loop.Body[s] && !p.mustPrecedeWithin(b.Instrs[len(b.Instrs)-1], call.Instr, loop) {
						earlyExit = p.IPos(b.Instrs[len(b.Instrs)-1])
					}
				}
			}
			if ok && earlyExit != "" {
				o.Fail("the loop over the exclusion globs is left at %s with a verdict that the glob engine was not asked for: a shortcut with its own idea of what a glob matches (a bare string prefix has no path-component boundary) drops files that pass every filter, or keeps files of a disabled path", earlyExit)
				continue
			}
			if ok {
				o.OK()
			} else {
				o.Fail("an iteration over the exclusion globs can go on to the next glob without asking the glob engine: a pre-filter with its own idea of the pattern syntax ({a,b} alternation, escapes) makes objects under a disabled conditional path land in the ObjectSet")
			}
		}
	}
	if n == 0 {
		c.AnchorLost("doublestar.PathMatch inside a loop in " + pkgPkgRender)
	}
}

// mustPrecedeWithin: every path from the loop head to `at` (within one iteration) passes `must`.
func (p *Program) mustPrecedeWithin(at, must ssa.Instruction, loop *Loop) bool {
	// reach `at`'s block backwards without passing must's block, staying inside the loop and stopping at the head
	target := at.Block()
	mb := must.Block()
	if target == mb {
		// must has to come first within the block
		for _, in := range target.Instrs {
			if in == must {
				return true
			}
			if in == at {
				return false
			}
		}
	}
	seen := map[*ssa.BasicBlock]bool{}
	var walk func(b *ssa.BasicBlock) bool // true = found a path to the head avoiding mb
	walk = func(b *ssa.BasicBlock) bool {
		if b == mb {
			return false
		}
		if b == loop.Head {
			return true
		}
		if seen[b] {
			return false
		}
		seen[b] = true
		for _, pr := range b.Preds {
			if !loop.Body[pr] && pr != loop.Head {
				continue
			}
			if walk(pr) {
				return true
			}
		}
		return false
	}
	return !walk(target)
}

// ---------------------------------------------------------------------------------------------
// C14.R8: slice garbage collection is evaluated against the ObjectDeployment as it exists on the
// cluster (the object that was read or just created) — its selector is what the existing ObjectSets
// are labelled with. The in-memory desired object carries the selector of the *new* manifest.
func gcAgainstPersistedDeploymentRule(c *Ctx) {
	p := c.P
	n := 0
	for _, fn := range p.FuncsIn(pkgPkgDeployX) {
		for _, call := range callsIn(fn) {
			callee := staticCallee(call.Common)
			if callee == nil || stableName(callee) != "sliceGarbageCollection" {
				continue
			}
			args := callArgs(call.Common)
			if len(args) < 2 {
				continue
			}
			n++
			o := c.Ob(fn, "gc-argument", call.Instr, c.rule.Statement)
			arg := args[len(args)-1]
			// the objects read from the cluster in this function: receivers of ClientObject() handed to a reader Get
			read := map[ssa.Value]bool{}
			for _, rc := range callsIn(fn) {
				var tgt ssa.Value
				if isReaderGet(rc.Common) {
					tgt = callArgs(rc.Common)[2]
				} else if ws, isW := classifyWriter(rc); isW && ws.Verb == "Create" {
					// just created: the cluster holds exactly this object — on the paths that created it
					created := rc.Instr
					if !p.mustPrecede(call.Instr, func(in ssa.Instruction) bool { return in == ssa.Instruction(created) }) {
						continue
					}
					tgt = ws.Obj
				} else {
					continue
				}
				if oc, _ := asCall(tgt); oc != nil && calleeName(oc.Common()) == "ClientObject" {
					if r := callRecv(oc.Common()); r != nil {
						for _, pv := range p.possibleValues(r) {
							read[stripConv(pv)] = true
						}
					}
				}
			}
			hit := false
			allNil := true
			for _, pv := range p.possibleValues(arg) {
				if read[stripConv(pv)] {
					hit = true
				}
				if !isNilConst(stripConv(pv)) {
					allNil = false
				}
			}
			if allNil {
				o.OK("unreachable copy (the argument is the nil of an error return)")
				continue
			}
			if hit {
				o.OK()
			} else {
				o.Fail("slice garbage collection is handed %s, which is never the ObjectDeployment read from the cluster in this function: its selector is the one derived from the new manifest, so after a manifest rename no existing ObjectSet is listed and the slices they reference are deleted", p.describe(arg))
			}
		}
	}
	if n == 0 {
		c.AnchorLost("call of sliceGarbageCollection in " + pkgPkgDeployX)
	}
}

// ---------------------------------------------------------------------------------------------
// C18.R9: values of all sources land in ONE config map through unstructured.SetNestedField (which
// merges nested destinations key by key). No source is collected separately and merged shallowly,
// and nothing writes top-level keys of the config directly.
func sourcesMergeDeepRule(c *Ctx) {
	p := c.P
	n := 0
	for _, fn := range p.FuncsIn(pkgObjTemplate) {
		// the config parameter: map[string]any parameter of a function that (transitively) copies source items
		for _, call := range callsIn(fn) {
			callee := staticCallee(call.Common)
			if callee == nil || stableName(callee) != "copySourceItems" {
				continue
			}
			args := callArgs(call.Common)
			if len(args) != 3 {
				continue
			}
			n++
			o := c.Ob(fn, "sources-share-one-config", call.Instr, c.rule.Statement)
			dest := args[2]
			shared := false
			for _, pv := range p.possibleValues(dest) {
				if _, isParam := stripConv(pv).(*ssa.Parameter); isParam {
					shared = true
				}
			}
			if !shared {
				o.Fail("the items of a source are copied into %s, not into the config map all sources share: merging per-source maps afterwards replaces whole subtrees, so two sources with a common destination prefix (.db.user, .db.password) lose each other's values", p.describe(dest))
				continue
			}
			// no direct map update of that parameter in this function
			bad := ""
			for _, b := range fn.Blocks {
				for _, in := range b.Instrs {
					if mu, ok := in.(*ssa.MapUpdate); ok && p.sameValue(mu.Map, dest) {
						bad = p.IPos(in)
					}
				}
			}
			if bad != "" {
				o.Fail("the shared config map is also written key-by-key at %s (a shallow write that replaces a whole subtree)", bad)
			} else {
				o.OK()
			}
		}
	}
	if n == 0 {
		c.AnchorLost("call of copySourceItems in " + pkgObjTemplate)
	}
}

func init() {
	addRule("C15", Rule{ID: "C15.R10", Min: 4, Statement: subReconcilerGateStatement, Run: subReconcilerGateRule})
	addRule("C07", Rule{ID: "C07.R9", Min: 4, Statement: subReconcilerGateStatement, Run: subReconcilerGateRule})
	addRule("C10", Rule{ID: "C10.R8", Min: 4, Statement: subReconcilerGateStatement, Run: subReconcilerGateRule})
	addRule("C07", Rule{ID: "C07.R10", Min: 2, Statement: "a recorded hash collision ends the pass: nothing is written after the counter bump, and the template hash has one writer", Run: collisionBumpEndsPassRule})
	addRule("C12", Rule{ID: "C12.R12", Min: 1, Statement: "the \"List\" suffix is stripped only from the kind of list objects", Run: listSuffixOnlyForListsRule})
	addRule("C13", Rule{ID: "C13.R13", Min: 1, Statement: "every exclusion glob is evaluated by the glob engine for every path", Run: everyGlobEvaluatedRule})
	addRule("C14", Rule{ID: "C14.R8", Min: 1, Statement: "slice garbage collection lists ObjectSets with the selector of the ObjectDeployment as read from the cluster", Run: gcAgainstPersistedDeploymentRule})
	addRule("C18", Rule{ID: "C18.R9", Min: 1, Statement: "all sources write into one shared config map through SetNestedField (deep merge)", Run: sourcesMergeDeepRule})
}

// isSiteResult: v can be result #0 of the call site — directly, through a Phi / spilled local, or (for
// a pointer-receiver method called on the local) v is the address of a local that the result is
// stored into right after the call.
func isSiteResult(p *Program, v ssa.Value, site *ssa.Call) bool {
	isEx := func(x ssa.Value) bool {
		ex, ok := stripConv(x).(*ssa.Extract)
		return ok && ex.Tuple == ssa.Value(site) && ex.Index == 0
	}
	for _, pv := range p.possibleValues(v) {
		if isEx(pv) {
			return true
		}
	}
	if a, ok := stripConv(v).(*ssa.Alloc); ok {
		for _, r := range referrersOf(a) {
			if st, ok := r.(*ssa.Store); ok && st.Addr == ssa.Value(a) && isEx(st.Val) {
				return true
			}
		}
	}
	return false
}

// ---------------------------------------------------------------------------------------------
// C19.R10 — a dependency that one constructor of a type wires and another leaves out is nil in the
// objects of the second: calling a method on it panics (nil interface / nil pointer) for whichever
// input first reaches that call. For every workspace struct with several constructors (functions
// returning a composite literal of it) and every interface- or pointer-typed field that some but not
// all of them set: every use of the field as the receiver of a call — directly or after being handed
// down as an argument (three levels) — must be under a nil test.
func constructorCompletenessRule(c *Ctx) {
	p := c.P
	type ctor struct {
		fn     *ssa.Function
		fields map[string]bool
	}
	ctors := map[*types.Named][]ctor{}
	for _, fn := range p.productFuncs() {
		if fn.Parent() != nil {
			continue
		}
		for _, rc := range p.returnCases(fn) {
			if len(rc.Results) == 0 {
				continue
			}
			f, typ, ok := compositeFields(rc.Results[0])
			if !ok || len(f) == 0 {
				continue
			}
			named, _ := typ.(*types.Named)
			if named == nil || named.Obj().Pkg() == nil || !strings.HasPrefix(named.Obj().Pkg().Path(), modPKO) {
				continue
			}
			set := map[string]bool{}
			for k := range f {
				set[strings.TrimSuffix(k, "#dup")] = true
			}
			ctors[named] = append(ctors[named], ctor{fn, set})
			break
		}
	}
	n := 0
	for named, cs := range ctors {
		if len(cs) < 2 {
			continue
		}
		st, _ := named.Underlying().(*types.Struct)
		if st == nil {
			continue
		}
		for i := 0; i < st.NumFields(); i++ {
			fld := st.Field(i)
			switch fld.Type().Underlying().(type) {
			case *types.Interface, *types.Pointer:
			default:
				continue
			}
			var missing []string
			setSomewhere := false
			for _, k := range cs {
				if k.fields[fld.Name()] {
					setSomewhere = true
				} else {
					missing = append(missing, shortFuncID(k.fn))
				}
			}
			if !setSomewhere || len(missing) == 0 {
				continue
			}
			n++
			o := c.Ob(nil, "optional-dependency:"+shortPkg(named.Obj().Pkg().Path())+"."+named.Obj().Name()+"."+fld.Name(), nil, c.rule.Statement)
			var bad []string
			for _, fn := range p.productFuncs() {
				for _, b := range fn.Blocks {
					for _, in := range b.Instrs {
						ld, ok := in.(*ssa.UnOp)
						if !ok {
							continue
						}
						fa, ok := ld.X.(*ssa.FieldAddr)
						if !ok || namedOf(fa.X.Type()) != named || fieldName(fa.X.Type(), fa.Field) != fld.Name() {
							continue
						}
						if why := p.usedAsReceiverUnguarded(ld, 0); why != "" {
							bad = append(bad, why)
						}
					}
				}
			}
			if len(bad) == 0 {
				o.OK()
			} else {
				o.Fail("%s leaves %s.%s nil, and it is called without a nil test: %s — the first input that reaches that call panics the process", strings.Join(dedupe(missing), ", "), named.Obj().Name(), fld.Name(), strings.Join(dedupe(bad), "; "))
			}
		}
	}
	c.Ob(nil, "constructors-compared", nil, c.rule.Statement).OK(fmt.Sprintf("%d types with several constructors, %d fields set by some but not all of them", len(ctors), n))
}

// usedAsReceiverUnguarded: v (a loaded dependency) is the receiver of a call, or is passed to a static
// callee that uses the parameter that way, without a dominating nil test. Returns a description or "".
func (p *Program) usedAsReceiverUnguarded(v ssa.Value, depth int) string {
	if depth > 3 {
		return ""
	}
	for _, r := range referrersOf(v) {
		ci, ok := r.(ssa.CallInstruction)
		if !ok {
			if mi, isMI := r.(*ssa.MakeInterface); isMI {
				if why := p.usedAsReceiverUnguarded(mi, depth); why != "" {
					return why
				}
			}
			if ct, isCT := r.(*ssa.ChangeInterface); isCT {
				if why := p.usedAsReceiverUnguarded(ct, depth); why != "" {
					return why
				}
			}
			continue
		}
		cc := ci.Common()
		if cc.IsInvoke() && cc.Value == v {
			if !p.knownNonNil(v, ci.Block()) {
				return "call of " + cc.Method.Name() + " at " + p.IPos(ci)
			}
			continue
		}
		callee := staticCallee(cc)
		if callee == nil || len(callee.Blocks) == 0 {
			continue
		}
		for i, a := range cc.Args {
			if a != v || i >= len(callee.Params) {
				continue
			}
			if p.knownNonNil(v, ci.Block()) {
				continue
			}
			if why := p.usedAsReceiverUnguarded(callee.Params[i], depth+1); why != "" {
				return why + " (via " + shortFuncID(callee) + ")"
			}
		}
	}
	return ""
}

func init() {
	addRule("C19", Rule{ID: "C19.R10", Min: 1, Statement: "a dependency that some constructor of a type leaves unset is never called without a nil test", Run: constructorCompletenessRule})
}

// ---------------------------------------------------------------------------------------------
// C01.R9 / C02.R7: the list of previous revisions that decides which adoptions are permitted is,
// on every path, the result of the previous-revision lookup — never a nil/empty shortcut ("no
// handover happens after the rollout succeeded"): with an empty list a permitted adoption from a
// still-active previous revision is refused and reported as a collision.
func previousListAlwaysLookedUpRule(c *Ctx) {
	p := c.P
	n := 0
	isPrevList := func(t types.Type) bool {
		sl, ok := t.Underlying().(*types.Slice)
		return ok && namedTypeString(sl.Elem()) == pkgControllers+".PreviousObjectSet"
	}
	for _, fn := range p.productFuncs() {
		pk := funcPkgPath(fn)
		if pk != pkgObjectSets && pk != pkgObjSetPhases {
			continue
		}
		for _, call := range callsIn(fn) {
			for ai, a := range call.Common.Args {
				if !isPrevList(a.Type()) {
					continue
				}
				// judge at the outermost frame only: where the value is not a parameter passed through
				if _, isParam := stripConv(a).(*ssa.Parameter); isParam {
					continue
				}
				n++
				o := c.Ob(fn, fmt.Sprintf("previous-list-arg:%s#%d", calleeName(call.Common), ai), call.Instr, c.rule.Statement)
				bad := ""
				for _, pv := range p.possibleValues(a) {
					v := stripConv(pv)
					if isNilConst(v) {
						bad = "nil"
					} else if ln, ok := sliceLiteralLen(v); ok && ln == 0 {
						bad = "an empty literal"
					} else if _, isMake := v.(*ssa.MakeSlice); isMake {
						bad = "a freshly made list"
					}
				}
				if bad == "" {
					o.OK()
				} else {
					o.Fail("the previous-revision list handed to %s can be %s instead of the lookup's result: adoption from a still-active previous revision (its objects re-created, or taken over late) is then refused and reported as CollisionDetected", calleeName(call.Common), bad)
				}
			}
		}
	}
	if n < 2 {
		c.AnchorLost(fmt.Sprintf("call arguments of type []controllers.PreviousObjectSet that are not passed-through parameters (found %d)", n))
	}
}

// listerUnfilteredRuleFor: see listerUnfilteredRule (rules_extra3.go); the same obligation for the
// ObjectDeployment controller's list of ObjectSets, which feeds the wait-for-revision guard, the
// newest-revision detection and spec.previous of the next revision.
func objectSetListerCompleteRule(c *Ctx) {
	p := c.P
	n := 0
	for _, fn := range p.FuncsIn(pkgObjDeploy) {
		if fn.Parent() != nil || fn.Signature.Results().Len() != 2 {
			continue
		}
		rt := fn.Signature.Results().At(0).Type()
		sl, ok := rt.Underlying().(*types.Slice)
		if !ok || !strings.Contains(types.TypeString(sl.Elem(), nil), "ObjectSet") {
			continue
		}
		hasList := false
		for _, cc := range callsIn(fn) {
			if calleeName(cc.Common) == "List" && cc.Common.IsInvoke() {
				hasList = true
			}
		}
		if !hasList {
			continue
		}
		n++
		for _, rc := range p.returnCases(fn) {
			if isNilConst(stripConv(rc.Results[0])) {
				continue
			}
			o := c.Ob(fn, "returns-all-items", rc.Ret, c.rule.Statement)
			okAll := true
			for _, pv := range p.possibleValues(rc.Results[0]) {
				call, _ := asCall(pv)
				if call == nil || calleeName(call.Common()) != "GetItems" {
					okAll = false
				}
			}
			if okAll {
				o.OK("returns GetItems() of the listed object")
			} else {
				o.Fail("the list of ObjectSets returned (%s) is not the complete result of the API list: a revision that is filtered out here (terminating, archived, …) is invisible to the wait-for-revision guard, to the newest-revision detection and to spec.previous of the next revision", p.describe(rc.Results[0]))
			}
		}
	}
	if n == 0 {
		c.AnchorLost("function listing the ObjectSets of an ObjectDeployment in " + pkgObjDeploy)
	}
}

func init() {
	st := "the previous-revision list handed to the phase reconciler is the lookup's result on every path"
	addRule("C01", Rule{ID: "C01.R9", Min: 2, Statement: st, Run: previousListAlwaysLookedUpRule})
	addRule("C02", Rule{ID: "C02.R7", Min: 2, Statement: st, Run: previousListAlwaysLookedUpRule})
	st2 := "the ObjectDeployment controller works on the complete list of its ObjectSets (nothing is filtered out before the revision logic sees it)"
	addRule("C07", Rule{ID: "C07.R11", Min: 1, Statement: st2, Run: objectSetListerCompleteRule})
	addRule("C08", Rule{ID: "C08.R9", Min: 1, Statement: st2, Run: objectSetListerCompleteRule})
}
