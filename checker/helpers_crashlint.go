package main

// helpers_crashlint.go — analysis A12 (crash lints) and the workspace call graph it runs on.
//
//   * wsGraph: static callees + function values + interface invokes resolved by CHA restricted to
//     workspace named types; reachability from a root set; SCCs (Tarjan).
//   * origin walk: where does an interface / slice / string value come from (used to decide whether an
//     unchecked assertion or a constant index is on an *input-derived* value).
//   * the four intra-procedural lints: unchecked TypeAssert, constant index/slice without length
//     guard, pointer result used while the paired error may be non-nil, explicit panic.
//
// Nothing in here knows a repository function by name; the frozen triage tables live in rules_c19.go.

import (
	"fmt"
	"go/token"
	"go/types"
	"sort"
	"strings"

	"golang.org/x/tools/go/ssa"
)

// ---------------------------------------------------------------------------------------------
// Workspace call graph

type wsGraph struct {
	p     *Program
	ws    map[*ssa.Function]bool // workspace source functions (p.Funcs)
	succ  map[*ssa.Function][]*ssa.Function
	impls map[string][]*ssa.Function        // interface-method key -> implementations by workspace types
	types []types.Type                      // workspace named types T and *T (non-generic + instantiated runtime types)
	calls map[*ssa.Function][]*ssa.Function // call edges only (static, CHA invoke, func values by signature)
	taken []*ssa.Function                   // product functions whose address is taken (closures, method values, callbacks)
}

var wsGraphCache = map[*Program]*wsGraph{}

func (p *Program) wsCallGraph() *wsGraph {
	if g := wsGraphCache[p]; g != nil {
		return g
	}
	g := &wsGraph{p: p, ws: map[*ssa.Function]bool{}, succ: map[*ssa.Function][]*ssa.Function{}, impls: map[string][]*ssa.Function{}}
	for _, f := range p.productFuncs() {
		g.ws[f] = true // test helpers, mocks and build tooling are not part of the shipped binaries
	}
	seenT := map[string]bool{}
	addT := func(n *types.Named) {
		if _, isIface := n.Underlying().(*types.Interface); isIface {
			return
		}
		k := n.String()
		if seenT[k] {
			return
		}
		seenT[k] = true
		g.types = append(g.types, n, types.NewPointer(n))
	}
	for _, pk := range p.Pkgs {
		if isNonProductPkg(pk.PkgPath) {
			continue
		}
		sc := pk.Types.Scope()
		for _, name := range sc.Names() {
			tn, ok := sc.Lookup(name).(*types.TypeName)
			if !ok || tn.IsAlias() {
				continue
			}
			n, ok := tn.Type().(*types.Named)
			if !ok || n.TypeParams().Len() > 0 {
				continue
			}
			addT(n)
		}
	}
	for _, t := range p.SSA.RuntimeTypes() {
		if pt, ok := t.(*types.Pointer); ok {
			t = pt.Elem()
		}
		n, ok := types.Unalias(t).(*types.Named)
		if !ok || n.TypeArgs().Len() == 0 || n.Obj().Pkg() == nil {
			continue
		}
		if _, ws := p.ByPath[n.Obj().Pkg().Path()]; ws && !isNonProductPkg(n.Obj().Pkg().Path()) {
			addT(n)
		}
	}
	// address-taken functions: candidates for calls through func-typed values
	seenF := map[*ssa.Function]bool{}
	for _, f := range p.productFuncs() {
		for _, b := range f.Blocks {
			for _, in := range b.Instrs {
				var ops []*ssa.Value
				ops = in.Operands(ops)
				for i, o := range ops {
					if o == nil || *o == nil {
						continue
					}
					fn, ok := (*o).(*ssa.Function)
					if !ok || seenF[fn] || !g.traversable(fn) {
						continue
					}
					if ci, isCall := in.(ssa.CallInstruction); isCall && i == 0 && !ci.Common().IsInvoke() && ci.Common().Value == ssa.Value(fn) {
						continue // plain static call
					}
					seenF[fn] = true
					g.taken = append(g.taken, fn)
				}
			}
		}
	}
	sort.Slice(g.taken, func(i, j int) bool { return g.taken[i].String() < g.taken[j].String() })
	wsGraphCache[p] = g
	return g
}

// funcValueTargets resolves a call through a func-typed value: every address-taken product function
// with an identical signature (closures: signature without the captured variables).
func (g *wsGraph) funcValueTargets(cc *ssa.CallCommon) []*ssa.Function {
	if cc.IsInvoke() {
		return nil
	}
	switch cc.Value.(type) {
	case *ssa.Function, *ssa.MakeClosure, *ssa.Builtin:
		return nil
	}
	sig, ok := cc.Value.Type().Underlying().(*types.Signature)
	if !ok {
		return nil
	}
	var out []*ssa.Function
	for _, f := range g.taken {
		fs := f.Signature
		if fs.Recv() != nil {
			fs = types.NewSignatureType(nil, nil, nil, fs.Params(), fs.Results(), fs.Variadic())
		}
		if types.Identical(fs, sig) {
			out = append(out, f)
		}
	}
	return out
}

// callees: call edges of f (static calls incl. go/defer and closures called directly, interface invokes
// resolved by CHA, calls through func values resolved by signature). Used for recursion detection;
// reachability additionally follows function values and interface conversions (successors).
func (g *wsGraph) callees(f *ssa.Function) []*ssa.Function {
	if g.calls == nil {
		g.calls = map[*ssa.Function][]*ssa.Function{}
	}
	if s, ok := g.calls[f]; ok {
		return s
	}
	seen := map[*ssa.Function]bool{}
	var out []*ssa.Function
	add := func(t *ssa.Function) {
		if t == nil || seen[t] || !g.traversable(t) {
			return
		}
		seen[t] = true
		out = append(out, t)
	}
	for _, b := range f.Blocks {
		for _, in := range b.Instrs {
			ci, ok := in.(ssa.CallInstruction)
			if !ok {
				continue
			}
			cc := ci.Common()
			add(staticCallee(cc))
			for _, t := range g.implementations(cc) {
				add(t)
			}
			for _, t := range g.funcValueTargets(cc) {
				add(t)
			}
		}
	}
	sort.Slice(out, func(i, j int) bool { return out[i].String() < out[j].String() })
	g.calls[f] = out
	return out
}

// traversable: workspace source function, or a synthetic wrapper/thunk/bound-method function (they
// only forward a call and have no source of their own).
func (g *wsGraph) traversable(f *ssa.Function) bool {
	if f == nil || f.Blocks == nil {
		return false
	}
	if g.ws[f] {
		return true
	}
	return f.Synthetic != "" && !strings.HasPrefix(f.Synthetic, "package initializer")
}

// implementations resolves an interface invoke by class-hierarchy analysis over workspace types.
func (g *wsGraph) implementations(cc *ssa.CallCommon) []*ssa.Function {
	if !cc.IsInvoke() {
		return nil
	}
	it, ok := cc.Value.Type().Underlying().(*types.Interface)
	if !ok {
		return nil
	}
	key := cc.Value.Type().String() + "." + cc.Method.Name()
	if r, ok := g.impls[key]; ok {
		return r
	}
	var out []*ssa.Function
	seen := map[*ssa.Function]bool{}
	for _, t := range g.types {
		if !types.Implements(t, it) {
			continue
		}
		f := g.p.SSA.LookupMethod(t, cc.Method.Pkg(), cc.Method.Name())
		if f != nil && !seen[f] {
			seen[f] = true
			out = append(out, f)
		}
	}
	g.impls[key] = out
	return out
}

// methodsOf: all methods of a workspace named type (or pointer to one), nil for other types.
func (g *wsGraph) methodsOf(t types.Type) []*ssa.Function {
	n := namedTypeString(t)
	i := strings.LastIndexByte(n, '.')
	if i < 0 {
		return nil
	}
	if _, ws := g.p.ByPath[n[:i]]; !ws || isNonProductPkg(n[:i]) {
		return nil
	}
	if _, isIface := t.Underlying().(*types.Interface); isIface {
		return nil
	}
	ms := g.p.SSA.MethodSets.MethodSet(t)
	var out []*ssa.Function
	for k := 0; k < ms.Len(); k++ {
		if f := g.p.SSA.MethodValue(ms.At(k)); f != nil {
			out = append(out, f)
		}
	}
	return out
}

// successors: functions that may run because f runs (called, deferred, spawned, or taken as a value).
func (g *wsGraph) successors(f *ssa.Function) []*ssa.Function {
	if s, ok := g.succ[f]; ok {
		return s
	}
	seen := map[*ssa.Function]bool{}
	var out []*ssa.Function
	add := func(t *ssa.Function) {
		if t == nil || seen[t] || !g.traversable(t) {
			return
		}
		seen[t] = true
		out = append(out, t)
	}
	for _, b := range f.Blocks {
		for _, in := range b.Instrs {
			var ops []*ssa.Value
			ops = in.Operands(ops)
			for _, o := range ops {
				if o == nil || *o == nil {
					continue
				}
				if fn, ok := (*o).(*ssa.Function); ok {
					add(fn)
				}
			}
			if ci, ok := in.(ssa.CallInstruction); ok {
				for _, t := range g.implementations(ci.Common()) {
					add(t)
				}
				for _, t := range g.funcValueTargets(ci.Common()) {
					add(t)
				}
			}
			// a workspace value converted to an interface may be handed to code outside the workspace
			// (apimachinery validators, cobra, controller-runtime) which then calls its methods
			if mi, ok := in.(*ssa.MakeInterface); ok {
				for _, t := range g.methodsOf(mi.X.Type()) {
					add(t)
				}
			}
		}
	}
	sort.Slice(out, func(i, j int) bool { return out[i].String() < out[j].String() })
	g.succ[f] = out
	return out
}

// reachableFrom returns the workspace functions reachable from roots and, for reports, one
// predecessor per function.
func (g *wsGraph) reachableFrom(roots []*ssa.Function) (map[*ssa.Function]bool, map[*ssa.Function]*ssa.Function) {
	reach := map[*ssa.Function]bool{}
	via := map[*ssa.Function]*ssa.Function{}
	work := append([]*ssa.Function{}, roots...)
	for _, r := range roots {
		reach[r] = true
	}
	for len(work) > 0 {
		f := work[0]
		work = work[1:]
		for _, s := range g.successors(f) {
			if !reach[s] {
				reach[s] = true
				via[s] = f
				work = append(work, s)
			}
		}
	}
	return reach, via
}

// pathTo renders root -> ... -> f (bounded) for reports.
func pathTo(via map[*ssa.Function]*ssa.Function, f *ssa.Function) string {
	var parts []string
	for i := 0; f != nil && i < 6; i++ {
		parts = append([]string{shortFuncID(f)}, parts...)
		f = via[f]
	}
	if f != nil {
		parts = append([]string{"..."}, parts...)
	}
	return strings.Join(parts, " -> ")
}

// sccs returns the strongly connected components of the sub-graph induced by `nodes` that are
// cycles (more than one member, or a self loop). Members sorted, components sorted by first member.
func (g *wsGraph) sccs(nodes map[*ssa.Function]bool) [][]*ssa.Function {
	index := map[*ssa.Function]int{}
	low := map[*ssa.Function]int{}
	on := map[*ssa.Function]bool{}
	var stack []*ssa.Function
	var out [][]*ssa.Function
	n := 0
	var order []*ssa.Function
	for f := range nodes {
		order = append(order, f)
	}
	sort.Slice(order, func(i, j int) bool { return order[i].String() < order[j].String() })
	// iterative Tarjan
	type frame struct {
		f  *ssa.Function
		si int
	}
	for _, root := range order {
		if _, ok := index[root]; ok {
			continue
		}
		fr := []frame{{root, 0}}
		index[root], low[root] = n, n
		n++
		stack = append(stack, root)
		on[root] = true
		for len(fr) > 0 {
			top := &fr[len(fr)-1]
			succ := g.callees(top.f)
			if top.si < len(succ) {
				s := succ[top.si]
				top.si++
				if !nodes[s] {
					continue
				}
				if _, ok := index[s]; !ok {
					index[s], low[s] = n, n
					n++
					stack = append(stack, s)
					on[s] = true
					fr = append(fr, frame{s, 0})
				} else if on[s] && index[s] < low[top.f] {
					low[top.f] = index[s]
				}
				continue
			}
			f := top.f
			fr = fr[:len(fr)-1]
			if len(fr) > 0 {
				par := fr[len(fr)-1].f
				if low[f] < low[par] {
					low[par] = low[f]
				}
			}
			if low[f] == index[f] {
				var comp []*ssa.Function
				for {
					x := stack[len(stack)-1]
					stack = stack[:len(stack)-1]
					on[x] = false
					comp = append(comp, x)
					if x == f {
						break
					}
				}
				cyc := len(comp) > 1
				if !cyc {
					for _, s := range g.callees(f) {
						if s == f {
							cyc = true
						}
					}
				}
				if cyc {
					sort.Slice(comp, func(i, j int) bool { return comp[i].String() < comp[j].String() })
					out = append(out, comp)
				}
			}
		}
	}
	sort.Slice(out, func(i, j int) bool { return out[i][0].String() < out[j][0].String() })
	return out
}

// ---------------------------------------------------------------------------------------------
// Roots

// isReconcileMethod: method Reconcile(context.Context, reconcile.Request) (...) of a workspace type.
func isReconcileMethod(f *ssa.Function) bool {
	if f.Name() != "Reconcile" || f.Signature.Recv() == nil || f.Parent() != nil {
		return false
	}
	ps := f.Signature.Params()
	if ps.Len() != 2 {
		return false
	}
	return ps.At(0).Type().String() == "context.Context" &&
		namedTypeString(ps.At(1).Type()) == "sigs.k8s.io/controller-runtime/pkg/reconcile.Request"
}

// isExportedAPI: exported package-level function, or exported method of an exported named type.
func isExportedAPI(f *ssa.Function) bool {
	if f.Parent() != nil || f.Synthetic != "" && !strings.HasPrefix(f.Synthetic, "instance of") {
		return false
	}
	obj, ok := f.Object().(*types.Func)
	if !ok || !obj.Exported() {
		return false
	}
	if recv := f.Signature.Recv(); recv != nil {
		n := namedTypeString(recv.Type())
		i := strings.LastIndexByte(n, '.')
		if i < 0 || !token.IsExported(n[i+1:]) {
			return false
		}
	}
	return true
}

// ---------------------------------------------------------------------------------------------
// Origins of a value (where may it come from), bounded walk. Used by the assertion / index lints.

type origin struct {
	Kind string // concrete | const | call | param | freevar | maplookup | elem | range | field | global | recv | alloc | other
	Desc string
	V    ssa.Value
}

func (p *Program) originsOf(v ssa.Value) []origin {
	var out []origin
	seen := map[ssa.Value]bool{}
	var walk func(v ssa.Value, d int)
	emit := func(kind, desc string, v ssa.Value) { out = append(out, origin{kind, desc, v}) }
	walk = func(v ssa.Value, d int) {
		if v == nil || seen[v] {
			return
		}
		seen[v] = true
		if d > 10 {
			emit("other", "depth", v)
			return
		}
		switch x := v.(type) {
		case *ssa.MakeInterface:
			emit("concrete", x.X.Type().String(), x)
		case *ssa.ChangeInterface:
			walk(x.X, d+1)
		case *ssa.ChangeType:
			walk(x.X, d+1)
		case *ssa.Convert:
			walk(x.X, d+1)
		case *ssa.Const:
			emit("const", x.String(), x)
		case *ssa.Phi:
			for _, e := range x.Edges {
				walk(e, d+1)
			}
		case *ssa.Extract:
			switch t := x.Tuple.(type) {
			case *ssa.Lookup:
				walk(t, d+1)
			case *ssa.TypeAssert:
				walk(t.X, d+1)
			case *ssa.Next:
				if r, ok := t.Iter.(*ssa.Range); ok {
					emit("range", r.X.Type().String(), x)
				} else {
					emit("other", "next", x)
				}
			case *ssa.Call:
				emit("call", calleeID(t.Common()), x)
			default:
				emit("other", fmt.Sprintf("extract %T", t), x)
			}
		case *ssa.Lookup:
			emit("maplookup", x.X.Type().String(), x)
		case *ssa.Index:
			emit("elem", x.X.Type().String(), x)
		case *ssa.Call:
			emit("call", calleeID(x.Common()), x)
		case *ssa.Parameter:
			emit("param", x.Name()+" "+x.Type().String(), x)
		case *ssa.FreeVar:
			emit("freevar", x.Name(), x)
		case *ssa.Global:
			emit("global", x.String(), x)
		case *ssa.TypeAssert:
			walk(x.X, d+1)
		case *ssa.Slice:
			walk(x.X, d+1)
		case *ssa.Field:
			emit("field", x.X.Type().String()+"."+fieldName(x.X.Type(), x.Field), x)
		case *ssa.UnOp:
			if x.Op != token.MUL {
				emit("other", x.Op.String(), x)
				return
			}
			switch a := x.X.(type) {
			case *ssa.Alloc:
				sts, ok := p.storesReaching(a, x)
				if ok && len(sts) > 0 {
					for _, s := range sts {
						walk(s.Val, d+1)
					}
					return
				}
				emit("alloc", a.Comment+" "+a.Type().String(), x)
			case *ssa.IndexAddr:
				emit("elem", a.X.Type().String(), x)
			case *ssa.FieldAddr:
				emit("field", a.X.Type().String()+"."+fieldName(a.X.Type(), a.Field), x)
			case *ssa.Global:
				emit("global", a.String(), x)
			case *ssa.FreeVar:
				emit("freevar", a.Name(), x)
			default:
				emit("other", fmt.Sprintf("load %T", a), x)
			}
		default:
			emit("other", fmt.Sprintf("%T", v), v)
		}
	}
	walk(v, 0)
	return out
}

func originStrings(os []origin) string {
	var s []string
	for _, o := range os {
		s = append(s, o.Kind+":"+o.Desc)
	}
	sort.Strings(s)
	return strings.Join(s, " | ")
}

func isEmptyInterface(t types.Type) bool {
	it, ok := t.Underlying().(*types.Interface)
	return ok && it.NumMethods() == 0 && !isTypeParam(t)
}

func isTypeParam(t types.Type) bool {
	_, ok := types.Unalias(t).(*types.TypeParam)
	return ok
}

// ---------------------------------------------------------------------------------------------
// Lint (a): unchecked type assertions

type assertSite struct {
	Fn      *ssa.Function
	Instr   *ssa.TypeAssert
	Origins []origin
}

// uncheckedAsserts lists `x.(T)` without comma-ok in fn.
func (p *Program) uncheckedAsserts(fn *ssa.Function) []assertSite {
	var out []assertSite
	for _, b := range fn.Blocks {
		for _, in := range b.Instrs {
			ta, ok := in.(*ssa.TypeAssert)
			if !ok || ta.CommaOk {
				continue
			}
			out = append(out, assertSite{Fn: fn, Instr: ta, Origins: p.originsOf(ta.X)})
		}
	}
	return out
}

// assertProvenByFacts: the assertion is dominated by a successful comma-ok assertion of the same
// operand to the same type (`if _, ok := x.(T); ok { … x.(T) … }`).
func (p *Program) assertProvenByFacts(ta *ssa.TypeAssert) bool {
	for _, f := range p.FactsAt(ta.Block()) {
		if !f.Pol {
			continue
		}
		ex, ok := f.Cond.(*ssa.Extract)
		if !ok || ex.Index != 1 {
			continue
		}
		prev, ok := ex.Tuple.(*ssa.TypeAssert)
		if !ok || !prev.CommaOk {
			continue
		}
		if types.Identical(prev.AssertedType, ta.AssertedType) && p.sameValue(prev.X, ta.X) {
			return true
		}
	}
	return false
}

// ---------------------------------------------------------------------------------------------
// Lint (b): constant index / slice bounds

type indexSite struct {
	Fn    *ssa.Function
	Instr ssa.Instruction
	X     ssa.Value // the indexed string / slice
	Need  int64     // minimum length that makes the access safe
	What  string    // "index" | "slice"
}

// constIndexSites lists `x[k]`, `x[k:]`, `x[:k]`, `x[a:b]` with constant non-trivial bounds on values
// of slice or string type (arrays and pointers to arrays are bounds-checked by the compiler).
func constIndexSites(fn *ssa.Function) []indexSite {
	var out []indexSite
	dyn := func(t types.Type) bool {
		switch u := t.Underlying().(type) {
		case *types.Slice:
			return true
		case *types.Basic:
			return u.Info()&types.IsString != 0
		}
		return false
	}
	for _, b := range fn.Blocks {
		for _, in := range b.Instrs {
			switch x := in.(type) {
			case *ssa.IndexAddr:
				if k, ok := constInt(x.Index); ok && dyn(x.X.Type()) {
					out = append(out, indexSite{fn, x, x.X, k + 1, "index"})
				}
			case *ssa.Index:
				if k, ok := constInt(x.Index); ok && dyn(x.X.Type()) {
					out = append(out, indexSite{fn, x, x.X, k + 1, "index"})
				}
			case *ssa.Lookup:
				if k, ok := constInt(x.Index); ok && dyn(x.X.Type()) {
					out = append(out, indexSite{fn, x, x.X, k + 1, "index"})
				}
			case *ssa.Slice:
				if !dyn(x.X.Type()) {
					continue
				}
				var need int64
				for _, bd := range []ssa.Value{x.Low, x.High, x.Max} {
					if bd == nil {
						continue
					}
					if k, ok := constInt(bd); ok && k > need {
						need = k
					}
				}
				if need > 0 {
					out = append(out, indexSite{fn, x, x.X, need, "slice"})
				}
			}
		}
	}
	return out
}

// lenLowerBound decomposes a comparison into (x, n, whenTrue): "cond == whenTrue implies len(x) >= n".
// Both polarities are returned when they carry information (n2/whenTrue2 with ok2).
type lenBound struct {
	X    ssa.Value
	N    int64
	When bool
}

func lenBounds(cond ssa.Value) []lenBound {
	b, ok := cond.(*ssa.BinOp)
	if !ok {
		return nil
	}
	lenOf := func(v ssa.Value) ssa.Value {
		if c, okc := v.(*ssa.Call); okc {
			if bi, okb := c.Call.Value.(*ssa.Builtin); okb && bi.Name() == "len" {
				return c.Call.Args[0]
			}
		}
		return nil
	}
	l, r, op := b.X, b.Y, b.Op
	if lenOf(l) == nil && lenOf(r) != nil {
		l, r = r, l
		switch op {
		case token.LSS:
			op = token.GTR
		case token.GTR:
			op = token.LSS
		case token.LEQ:
			op = token.GEQ
		case token.GEQ:
			op = token.LEQ
		}
	}
	x := lenOf(l)
	if x == nil {
		return nil
	}
	n, isInt := constInt(r)
	if !isInt {
		return nil
	}
	switch op {
	case token.GTR: // len > n  ⇒ len >= n+1
		return []lenBound{{x, n + 1, true}}
	case token.GEQ:
		return []lenBound{{x, n, true}}
	case token.LSS: // !(len < n) ⇒ len >= n
		return []lenBound{{x, n, false}}
	case token.LEQ: // !(len <= n) ⇒ len >= n+1
		return []lenBound{{x, n + 1, false}}
	case token.EQL: // len == n ⇒ len >= n ; len != 0 ⇒ len >= 1
		out := []lenBound{{x, n, true}}
		if n == 0 {
			out = append(out, lenBound{x, 1, false})
		}
		return out
	case token.NEQ:
		out := []lenBound{{x, n, false}}
		if n == 0 {
			out = append(out, lenBound{x, 1, true})
		}
		return out
	}
	return nil
}

// emptyStringBound: `s != ""` / `s == ""` as a length-1 bound on the string s.
func emptyStringBound(cond ssa.Value) (x ssa.Value, when bool, ok bool) {
	b, isBin := cond.(*ssa.BinOp)
	if !isBin || (b.Op != token.EQL && b.Op != token.NEQ) {
		return nil, false, false
	}
	isEmpty := func(v ssa.Value) bool { s, ok := constString(v); return ok && s == "" }
	switch {
	case isEmpty(b.Y):
		x = b.X
	case isEmpty(b.X):
		x = b.Y
	default:
		return nil, false, false
	}
	return x, b.Op == token.NEQ, true
}

// constructedLenAtLeast: x was built with a statically known length of at least `need`: a literal
// (`slice arr[:]`), `make(T, k)` with constant k (go/ssa turns that into `slice (new [k]E)[:k]`), a
// constant sub-slice of an array, a constant string; a merge of such values; or a local variable read
// back (`v := make([]T, 1); v[0].F = …` with &v taken later) when every definition that can reach the
// read is such a value and the variable's address cannot have been handed to anyone before the read.
func (p *Program) constructedLenAtLeast(x ssa.Value, need int64, depth int) (bool, string) {
	if depth > 4 {
		return false, ""
	}
	switch c := stripConv(x).(type) {
	case *ssa.Slice:
		a, ok := c.X.(*ssa.Alloc)
		if !ok {
			return false, ""
		}
		pt, ok := a.Type().Underlying().(*types.Pointer)
		if !ok {
			return false, ""
		}
		at, ok := pt.Elem().Underlying().(*types.Array)
		if !ok {
			return false, ""
		}
		lo, hi := int64(0), at.Len()
		if c.Low != nil {
			k, ok := constInt(c.Low)
			if !ok {
				return false, ""
			}
			lo = k
		}
		if c.High != nil {
			k, ok := constInt(c.High)
			if !ok {
				return false, ""
			}
			hi = k
		}
		if hi-lo >= need {
			if c.Low == nil && c.High == nil {
				return true, fmt.Sprintf("literal of length %d", hi)
			}
			return true, fmt.Sprintf("array-backed slice of constant length %d", hi-lo)
		}
	case *ssa.MakeSlice:
		if n, ok := constInt(c.Len); ok && n >= need {
			return true, fmt.Sprintf("make(_, %d)", n)
		}
	case *ssa.Const:
		if s, ok := constString(c); ok && int64(len(s)) >= need {
			return true, "constant string"
		}
	case *ssa.Phi:
		why := ""
		for _, e := range c.Edges {
			ok, w := p.constructedLenAtLeast(e, need, depth+1)
			if !ok {
				return false, ""
			}
			why = w
		}
		return len(c.Edges) > 0, why
	case *ssa.UnOp:
		if c.Op != token.MUL {
			return false, ""
		}
		a, ok := c.X.(*ssa.Alloc)
		if !ok || !p.addrPrivateUntil(a, c) {
			return false, ""
		}
		// (addrPrivateUntil is the escape judgement here; storesReaching's own, coarser one also
		// counts escapes that happen after the read)
		sts, _ := p.storesReaching(a, c)
		if len(sts) == 0 || p.mayHoldZero(a, c) {
			return false, ""
		}
		why := ""
		for _, s := range sts {
			ok, w := p.constructedLenAtLeast(s.Val, need, depth+1)
			if !ok {
				return false, ""
			}
			why = w
		}
		return true, why + " (read back from the local variable it was assigned to)"
	}
	return false, ""
}

// addrPrivateUntil: nothing but plain stores to and loads of the variable `a` itself can have
// executed before `at` — its address was not yet passed to a call, captured, stored or used to derive
// an element/field address, so only the stores in this function define what `at` reads.
func (p *Program) addrPrivateUntil(a *ssa.Alloc, at ssa.Instruction) bool {
	refs := a.Referrers()
	if refs == nil {
		return false
	}
	for _, r := range *refs {
		switch x := r.(type) {
		case *ssa.DebugRef:
			continue
		case *ssa.UnOp:
			if x.Op == token.MUL {
				continue
			}
		case *ssa.Store:
			if x.Addr == ssa.Value(a) && x.Val != ssa.Value(a) {
				continue
			}
		}
		rb, ab := r.Block(), at.Block()
		if rb == nil || ab == nil {
			return false
		}
		if rb == ab {
			if instrIndex(r) < instrIndex(at) {
				return false
			}
			// later in the same block: precedes `at` only around a cycle through the block
			for _, s := range rb.Succs {
				if blockReachableFrom(s, ab) {
					return false
				}
			}
			continue
		}
		if blockReachableFrom(rb, ab) {
			return false
		}
	}
	return true
}

// lengthKnownAtLeast: do the guard facts at the site (or the construction of x) establish len(x) >= need?
func (p *Program) lengthKnownAtLeast(site ssa.Instruction, x ssa.Value, need int64) (bool, string) {
	// constructed with a known length
	if ok, why := p.constructedLenAtLeast(x, need, 0); ok {
		return true, why
	}
	for _, f := range p.FactsAt(site.Block()) {
		for _, lb := range lenBounds(f.Cond) {
			if lb.When == f.Pol && lb.N >= need && p.sameValue(lb.X, x) {
				return true, "guard " + p.describeFact(f)
			}
		}
		if need == 1 {
			if y, when, ok := emptyStringBound(f.Cond); ok && when == f.Pol && p.sameValue(y, x) {
				return true, "guard " + p.describeFact(f)
			}
		}
	}
	// results that are never shorter than `need` by the contract of the standard library
	if call, idx := asCall(x); call != nil && idx == -1 {
		switch calleeID(call.Common()) {
		case "strings.Split", "strings.SplitN", "strings.SplitAfter", "strings.SplitAfterN", "bytes.Split", "bytes.SplitN":
			// with a non-empty separator the result has at least one element (n != 0 for the N forms)
			if need == 1 {
				args := call.Common().Args
				if sep, ok := constString(args[1]); ok && sep != "" {
					if len(args) == 3 {
						if n, ok := constInt(args[2]); !ok || n == 0 {
							break
						}
					}
					return true, "strings.Split* with a non-empty constant separator returns at least one element"
				}
			}
		}
	}
	return false, ""
}

// ---------------------------------------------------------------------------------------------
// Lint (c): pointer result used while the paired error may be non-nil

type ptrUse struct {
	Fn   *ssa.Function
	Call *ssa.Call
	Ptr  ssa.Value       // the pointer result (Extract)
	Use  ssa.Instruction // the dereferencing instruction
	How  string
}

// ptrErrCalls lists calls whose result tuple has a pointer at index i and `error` as last element.
func ptrErrResult(call *ssa.Call) (ptrIdx []int, errIdx int) {
	res := call.Common().Signature().Results()
	errIdx = -1
	if res.Len() < 2 {
		return nil, -1
	}
	if res.At(res.Len()-1).Type().String() != "error" {
		return nil, -1
	}
	errIdx = res.Len() - 1
	for i := 0; i < res.Len()-1; i++ {
		if _, ok := res.At(i).Type().Underlying().(*types.Pointer); ok {
			ptrIdx = append(ptrIdx, i)
		}
	}
	return ptrIdx, errIdx
}

// derefUses returns the instructions that dereference pointer value v (directly, through phis, or
// through a spilled local): field address, load, element address, or a method call with v as the
// pointer receiver of a function that is not nil-receiver safe by construction (we cannot know, so all).
func (p *Program) derefUses(v ssa.Value) []struct {
	In  ssa.Instruction
	How string
} {
	var out []struct {
		In  ssa.Instruction
		How string
	}
	seen := map[ssa.Value]bool{}
	var walk func(v ssa.Value, d int)
	walk = func(v ssa.Value, d int) {
		if seen[v] || d > 3 {
			return
		}
		seen[v] = true
		for _, r := range referrersOf(v) {
			switch x := r.(type) {
			case *ssa.FieldAddr:
				if x.X == v {
					out = append(out, struct {
						In  ssa.Instruction
						How string
					}{x, "field " + fieldName(v.Type(), x.Field)})
				}
			case *ssa.UnOp:
				if x.Op == token.MUL && x.X == v {
					out = append(out, struct {
						In  ssa.Instruction
						How string
					}{x, "load"})
				}
			case *ssa.IndexAddr:
				if x.X == v {
					out = append(out, struct {
						In  ssa.Instruction
						How string
					}{x, "element"})
				}
			case *ssa.Store:
				// spilled into a local: follow loads of that local that this store reaches exclusively
				if a, ok := x.Addr.(*ssa.Alloc); ok && x.Val == v {
					for _, rr := range referrersOf(a) {
						if ld, ok := rr.(*ssa.UnOp); ok && ld.Op == token.MUL {
							if src, ok := p.loadSource(ld); ok && src == v {
								walk(ld, d+1)
							}
						}
					}
				}
			}
		}
	}
	walk(v, 0)
	return out
}

// pointerUsesUnderError lists dereferences of pointer results of (…*T…, error) calls in fn at points
// where the error of the same call is not known to be nil and the pointer is not known non-nil.
func (p *Program) pointerUsesUnderError(fn *ssa.Function) (bad []ptrUse, examined int) {
	for _, b := range fn.Blocks {
		for _, in := range b.Instrs {
			call, ok := in.(*ssa.Call)
			if !ok {
				continue
			}
			ptrIdx, errIdx := ptrErrResult(call)
			if errIdx < 0 || len(ptrIdx) == 0 {
				continue
			}
			for _, r := range referrersOf(call) {
				ex, ok := r.(*ssa.Extract)
				if !ok {
					continue
				}
				isPtr := false
				for _, i := range ptrIdx {
					if i == ex.Index {
						isPtr = true
					}
				}
				if !isPtr {
					continue
				}
				for _, u := range p.derefUses(ex) {
					examined++
					fs := p.FactsAt(u.In.Block())
					if p.errOfCall(fs, call) == yesTri {
						continue
					}
					if p.nilnessFromFacts(fs, ex) == noTri {
						continue
					}
					bad = append(bad, ptrUse{Fn: fn, Call: call, Ptr: ex, Use: u.In, How: u.How})
				}
			}
		}
	}
	return bad, examined
}

// ---------------------------------------------------------------------------------------------
// Lint (d): explicit panics

func panicsIn(fn *ssa.Function) []*ssa.Panic {
	var out []*ssa.Panic
	for _, b := range fn.Blocks {
		for _, in := range b.Instrs {
			if pn, ok := in.(*ssa.Panic); ok {
				out = append(out, pn)
			}
		}
	}
	return out
}

// panicShape: a short line-free description of the panic argument.
func (p *Program) panicShape(pn *ssa.Panic) string {
	v := stripConv(pn.X)
	if s, ok := constString(v); ok {
		return fmt.Sprintf("%q", s)
	}
	if types.Identical(v.Type(), types.Universe.Lookup("error").Type()) {
		os := p.originsOf(v)
		if len(os) == 1 && os[0].Kind == "call" {
			return "error of " + os[0].Desc
		}
		return "error"
	}
	if c, _ := asCall(v); c != nil {
		return calleeID(c.Common()) + "(…)"
	}
	return v.Type().String()
}
