package main

import (
	"encoding/json"
	"fmt"
	"go/ast"
	"go/parser"
	"go/token"
	"go/types"
	"os"
	"sort"
	"strings"

	"golang.org/x/tools/go/packages"
	"golang.org/x/tools/go/ssa"
)

// Normalisation pre-pass: undo "extract helper" refactorings.
//
// The rules were written against the functions of the pinned tree. The most common
// behaviour-preserving edit — moving a block into a new unexported helper — moves calls, guards and
// values out of the function a rule looks at. Instead of teaching every rule to look through
// helpers, the loader rewrites the program (in memory, as a go/packages overlay) so that every call
// of a *new* helper — an unexported function or method of the workspace that is not recorded in
// anchors.json (the fingerprints of the pinned tree) and is not a tracked rename — is replaced by
// the helper's body at the call site. The transformation is purely syntactic and
// semantics-preserving under the restrictions checked below (no defer/recover/labels/goto/generics/
// variadics in the helper, call in statement position, no identifier capture); positions are kept
// with /*line*/ directives, so reports still point at the original source lines. Helpers that do
// not meet the restrictions are left alone (rules then see them as before).
//
// The helper definitions stay in the program. Pinned helpers are never inlined, so on the pinned
// tree the pass does nothing.

type fileEdit struct {
	start, end int // byte offsets in the file
	text       string
}

var normalizeCounter int

func recordedAnchors() map[string]anchorFP {
	var recorded map[string]anchorFP
	if len(anchorsJSON) == 0 || json.Unmarshal(anchorsJSON, &recorded) != nil {
		return nil
	}
	return recorded
}

// newHelperOverlay computes overlay contents that inline calls of new helpers into pinned functions.
func (p *Program) newHelperOverlay(current map[string][]byte, protectCandidates bool) (map[string][]byte, []string) {
	recorded := recordedAnchors()
	if len(recorded) < 100 {
		return nil, nil
	}
	// new helpers: *types.Func objects
	newObj := map[types.Object]bool{}
	for _, fn := range p.Funcs {
		if fn.Parent() != nil || fn.Synthetic != "" || fn.Object() == nil {
			continue
		}
		if isNonProductPkg(funcPkgPath(fn)) {
			continue
		}
		if _, ok := recorded[funcID(fn)]; ok {
			continue
		}
		if _, renamed := p.alias[fn]; renamed {
			continue
		}
		if fn.Object().Exported() {
			continue
		}
		if protectCandidates && p.renameCand[fn] && !p.alias2(fn) && p.callsUnrecorded(fn, recorded) {
			// possibly a renamed recorded function whose body was split up: inline into it first, so
			// that rename tracking can recognise it in the next round
			continue
		}
		newObj[fn.Object()] = true
	}
	// declarations of the new helpers
	type declInfo struct {
		decl *ast.FuncDecl
		pkg  *packages.Package
		file *ast.File
	}
	decls := map[types.Object]declInfo{}
	for _, pk := range p.Pkgs {
		for _, f := range pk.Syntax {
			for _, d := range f.Decls {
				fd, ok := d.(*ast.FuncDecl)
				if !ok || fd.Body == nil {
					continue
				}
				if obj := pk.TypesInfo.Defs[fd.Name]; obj != nil && newObj[obj] {
					decls[obj] = declInfo{fd, pk, f}
				}
			}
		}
	}
	edits := map[string][]fileEdit{}
	var notes []string
	for _, pk := range p.Pkgs {
		for _, f := range pk.Syntax {
			fname := p.Fset.PositionFor(f.Pos(), false).Filename
			src := current[fname]
			if src == nil {
				b, err := os.ReadFile(fname)
				if err != nil {
					continue
				}
				src = b
			}
			for _, d := range f.Decls {
				fd, ok := d.(*ast.FuncDecl)
				if !ok || fd.Body == nil {
					continue
				}
				if obj := pk.TypesInfo.Defs[fd.Name]; obj != nil && newObj[obj] {
					continue // inline only into functions of the pinned tree; nested helpers follow in the next pass
				}
				p.collectInlineSites(pk, f, fd, src, func(obj types.Object) (*ast.FuncDecl, *packages.Package, *ast.File, bool) {
					di, ok := decls[obj]
					return di.decl, di.pkg, di.file, ok
				}, func(e fileEdit, note string) {
					edits[fname] = append(edits[fname], e)
					if note != "" {
						notes = append(notes, note)
					}
				}, current)
			}
		}
	}
	if len(edits) == 0 {
		return nil, nil
	}
	out := map[string][]byte{}
	for fname, es := range edits {
		src := current[fname]
		if src == nil {
			src, _ = os.ReadFile(fname)
		}
		sort.Slice(es, func(i, j int) bool { return es[i].start > es[j].start })
		ok := true
		for i := 1; i < len(es); i++ {
			if es[i].end > es[i-1].start {
				ok = false // overlapping edits (nested call sites): keep the outermost only in this pass
			}
		}
		if !ok {
			var kept []fileEdit
			lastStart := len(src) + 1
			for _, e := range es {
				if e.end <= lastStart {
					kept = append(kept, e)
					lastStart = e.start
				}
			}
			es = kept
		}
		buf := string(src)
		for _, e := range es {
			buf = buf[:e.start] + e.text + buf[e.end:]
		}
		out[fname] = []byte(buf)
	}
	return out, notes
}

// helperEligible checks the syntactic restrictions under which textual inlining preserves semantics.
func helperEligible(fd *ast.FuncDecl) (bool, string) {
	if fd.Type.TypeParams != nil {
		return false, "generic"
	}
	if fd.Recv != nil {
		for _, f := range fd.Recv.List {
			if _, isIdx := f.Type.(*ast.IndexExpr); isIdx {
				return false, "generic receiver"
			}
			if st, ok := f.Type.(*ast.StarExpr); ok {
				if _, isIdx := st.X.(*ast.IndexExpr); isIdx {
					return false, "generic receiver"
				}
			}
		}
	}
	if fd.Type.Params != nil {
		for _, f := range fd.Type.Params.List {
			if _, variadic := f.Type.(*ast.Ellipsis); variadic {
				return false, "variadic"
			}
		}
	}
	bad := ""
	ast.Inspect(fd.Body, func(n ast.Node) bool {
		switch x := n.(type) {
		case *ast.DeferStmt:
			bad = "defer"
		case *ast.LabeledStmt:
			bad = "label"
		case *ast.BranchStmt:
			if x.Tok == token.GOTO || x.Label != nil {
				bad = "goto/labelled branch"
			}
		case *ast.CallExpr:
			if id, ok := x.Fun.(*ast.Ident); ok && id.Name == "recover" {
				bad = "recover"
			}
			if id, ok := x.Fun.(*ast.Ident); ok && id.Name == fd.Name.Name && fd.Recv == nil {
				bad = "recursive"
			}
			if sel, ok := x.Fun.(*ast.SelectorExpr); ok && sel.Sel.Name == fd.Name.Name && fd.Recv != nil {
				bad = "recursive"
			}
		}
		return bad == ""
	})
	if bad != "" {
		return false, bad
	}
	// results: all named or all unnamed
	if fd.Type.Results != nil {
		named, unnamed := 0, 0
		for _, f := range fd.Type.Results.List {
			if len(f.Names) == 0 {
				unnamed++
			} else {
				named += len(f.Names)
			}
		}
		if named > 0 && unnamed > 0 {
			return false, "mixed results"
		}
	}
	return true, ""
}

func (p *Program) collectInlineSites(pk *packages.Package, file *ast.File, caller *ast.FuncDecl, src []byte,
	lookup func(types.Object) (*ast.FuncDecl, *packages.Package, *ast.File, bool),
	emit func(fileEdit, string), current map[string][]byte) {

	off := func(pos token.Pos) int { return p.Fset.PositionFor(pos, false).Offset }
	text := func(a, b token.Pos) string { return string(src[off(a):off(b)]) }

	calleeOf := func(call *ast.CallExpr) (types.Object, ast.Expr) {
		switch fun := call.Fun.(type) {
		case *ast.Ident:
			return pk.TypesInfo.Uses[fun], nil
		case *ast.SelectorExpr:
			if sel := pk.TypesInfo.Selections[fun]; sel != nil && sel.Kind() == types.MethodVal {
				return sel.Obj(), fun.X
			}
			if _, isPkg := pk.TypesInfo.Uses[identOf(fun.X)].(*types.PkgName); isPkg {
				return pk.TypesInfo.Uses[fun.Sel], nil // package-qualified function
			}
		}
		return nil, nil
	}
	// beyond the new helpers known to the caller of this function: (a) the standard library's generic
	// search helpers, presented as synthetic loop helpers when their use is new in this function
	// ("modernised" loops), and (b) calls of the local closure variables such a synthetic helper binds
	// its predicate to
	baseLookup := lookup
	lookup = func(obj types.Object) (*ast.FuncDecl, *packages.Package, *ast.File, bool) {
		if fd, cpk, cf, ok := baseLookup(obj); ok {
			return fd, cpk, cf, ok
		}
		switch o := obj.(type) {
		case *types.Func:
			if o.Pkg() != nil && o.Pkg().Path() == "slices" && p.stdUseIsNew(pk, caller, "slices."+o.Name()) {
				if fd, cf := p.syntheticStdHelper(o.Name()); fd != nil {
					return fd, pk, cf, true
				}
			}
		case *types.Var:
			if strings.HasPrefix(o.Name(), "pkoStd") {
				if fd := closureVarDecl(pk, caller, o); fd != nil {
					return fd, pk, file, true
				}
			}
		}
		return nil, nil, nil, false
	}

	// handle one statement that sits in a statement list
	var handleList func(list []ast.Stmt)
	// isNewHelperCall: the call resolves to a helper known to lookup
	isNewHelperCall := func(c *ast.CallExpr) bool {
		obj, _ := calleeOf(c)
		if obj == nil {
			return false
		}
		_, _, _, ok := lookup(obj)
		return ok
	}
	// isEffect: a node whose evaluation is ordered relative to calls (another call, a receive)
	isEffect := func(n ast.Node) bool {
		switch x := n.(type) {
		case *ast.CallExpr:
			if tv, ok := pk.TypesInfo.Types[x.Fun]; ok && tv.IsType() {
				return false // conversion
			}
			if id, ok := x.Fun.(*ast.Ident); ok {
				if _, isB := pk.TypesInfo.Uses[id].(*types.Builtin); isB {
					switch id.Name {
					case "len", "cap", "make", "new", "append", "min", "max", "real", "imag", "complex":
						return false
					}
				}
			}
			return true
		case *ast.UnaryExpr:
			return x.Op == token.ARROW
		}
		return false
	}
	// hoistable finds, among the expressions roots (in lexical order), a call of a new helper that is
	// evaluated unconditionally and before every other call/receive of these expressions.
	hoistable := func(roots []ast.Node) *ast.CallExpr {
		var found *ast.CallExpr
		var effects []ast.Node
		for _, r := range roots {
			if r == nil || found != nil {
				continue
			}
			var stack []ast.Node
			ast.Inspect(r, func(n ast.Node) bool {
				if n == nil {
					stack = stack[:len(stack)-1]
					return false
				}
				if found != nil {
					return false
				}
				if _, isLit := n.(*ast.FuncLit); isLit {
					return false
				}
				if c, ok := n.(*ast.CallExpr); ok && isNewHelperCall(c) {
					// unconditional: no enclosing && / || right operand
					cond := false
					var child ast.Node = c
					for i := len(stack) - 1; i >= 0; i-- {
						if b, ok := stack[i].(*ast.BinaryExpr); ok && (b.Op == token.LAND || b.Op == token.LOR) && b.Y == child {
							cond = true
						}
						child = stack[i]
					}
					first := true
					for _, e := range effects {
						if e.End() <= c.Pos() {
							first = false
						}
					}
					if !cond && first {
						found = c
						return false
					}
				}
				if isEffect(n) {
					effects = append(effects, n)
				}
				stack = append(stack, n)
				return true
			})
		}
		return found
	}
	exprNodes := func(es []ast.Expr) []ast.Node {
		var out []ast.Node
		for _, e := range es {
			out = append(out, e)
		}
		return out
	}
	stmtRoots := func(s ast.Stmt) []ast.Node {
		switch x := s.(type) {
		case *ast.ExprStmt:
			return []ast.Node{x.X}
		case *ast.AssignStmt:
			return append(exprNodes(x.Lhs), exprNodes(x.Rhs)...)
		case *ast.ReturnStmt:
			return exprNodes(x.Results)
		case *ast.DeclStmt:
			var out []ast.Node
			if gd, ok := x.Decl.(*ast.GenDecl); ok && gd.Tok == token.VAR {
				for _, sp := range gd.Specs {
					if vs, ok := sp.(*ast.ValueSpec); ok {
						out = append(out, exprNodes(vs.Values)...)
					}
				}
			}
			return out
		}
		return nil
	}
	handleStmt := func(st ast.Stmt, wrapAlways bool, rest []ast.Stmt) {
		var call *ast.CallExpr
		replStart, replEnd := st.Pos(), st.End()
		prefix, suffix := "", ""
		head, tailOf := "", func(rs []string) string { return "" }
		lineAt := func(pos token.Pos) string {
			ps := p.Fset.PositionFor(pos, false)
			return fmt.Sprintf("/*line %s:%d:%d*/", ps.Filename, ps.Line, ps.Column)
		}
		// around builds head/tail so that [from,to) is reproduced with the call replaced by the results
		around := func(from, to token.Pos) {
			c := call
			head = text(from, c.Pos())
			tailOf = func(rs []string) string {
				return strings.Join(rs, ", ") + lineAt(c.End()) + text(c.End(), to)
			}
		}
		switch x := st.(type) {
		case *ast.ExprStmt:
			if c, ok := x.X.(*ast.CallExpr); ok && isNewHelperCall(c) {
				call = c // result (if any) unused
			} else if call = hoistable(stmtRoots(st)); call != nil {
				around(st.Pos(), st.End())
			}
		case *ast.AssignStmt, *ast.ReturnStmt, *ast.DeclStmt:
			if call = hoistable(stmtRoots(st)); call != nil {
				around(st.Pos(), st.End())
			}
		case *ast.IfStmt:
			if x.Init != nil {
				if call = hoistable(stmtRoots(x.Init)); call != nil {
					// { inline; <init'>; if cond {...} }   (the init statement keeps its scope inside the block)
					prefix = "{\n"
					around(x.Init.Pos(), x.Init.End())
					old := tailOf
					rest := text(x.Cond.Pos(), x.End())
					cpos := x.Cond.Pos()
					tailOf = func(rs []string) string {
						return old(rs) + "\nif " + lineAt(cpos) + rest + "\n}"
					}
					if es, ok := x.Init.(*ast.ExprStmt); ok && es.X == call {
						head = ""
						tailOf = func(rs []string) string { return ";\nif " + lineAt(cpos) + rest + "\n}" }
					}
				} else {
					if call = hoistable([]ast.Node{x.Cond}); call != nil {
						// { <init>; inline; if cond' {...} }
						prefix = "{\n" + lineAt(x.Init.Pos()) + text(x.Init.Pos(), x.Init.End()) + "\n"
						around(x.Cond.Pos(), x.End())
						head = "if " + lineAt(x.Cond.Pos()) + head
						old := tailOf
						tailOf = func(rs []string) string { return old(rs) + "\n}" }
					}
				}
			} else if call = hoistable([]ast.Node{x.Cond}); call != nil {
				if wrapAlways {
					prefix = "{\n"
					around(x.Cond.Pos(), x.End())
					head = "if " + lineAt(x.Cond.Pos()) + head
					old := tailOf
					tailOf = func(rs []string) string { return old(rs) + "\n}" }
				} else {
					replEnd = x.Cond.End()
					around(x.Cond.Pos(), x.Cond.End())
					head = "if " + lineAt(x.Cond.Pos()) + head
				}
			}
		case *ast.SwitchStmt:
			if x.Init == nil && x.Tag != nil {
				if call = hoistable([]ast.Node{x.Tag}); call != nil {
					replEnd = x.Tag.End()
					around(x.Tag.Pos(), x.Tag.End())
					head = "switch " + lineAt(x.Tag.Pos()) + head
				}
			}
		case *ast.RangeStmt:
			if call = hoistable([]ast.Node{x.X}); call != nil {
				replEnd = x.X.End()
				around(st.Pos(), x.X.End())
			}
		}
		if call == nil {
			return
		}
		if wrapAlways && prefix == "" {
			return
		}
		rebuild := func(rs []string) string {
			t := tailOf(rs)
			if head == "" && t == "" {
				return ""
			}
			return head + t
		}
		obj, recvExpr := calleeOf(call)
		if obj == nil {
			return
		}
		fd, cpk, cfile, ok := lookup(obj)
		if !ok || cpk != pk {
			return
		}
		if elig, _ := helperEligible(fd); !elig {
			return
		}
		if call.Ellipsis.IsValid() {
			return
		}
		calleeFileName := p.Fset.PositionFor(cfile.Pos(), false).Filename
		csrc := src
		if syn, isSyn := p.synthSrc[calleeFileName]; isSyn {
			csrc = syn
		} else if cfile != file {
			csrc = current[calleeFileName]
			if csrc == nil {
				b, err := os.ReadFile(calleeFileName)
				if err != nil {
					return
				}
				csrc = b
			}
			if !sameImportNames(pk, file, cfile, fd) {
				return
			}
		}
		if !p.noCapture(pk, file, fd, call) {
			return
		}
		coff := func(pos token.Pos) int { return p.Fset.PositionFor(pos, false).Offset }
		ctext := func(a, b token.Pos) string { return string(csrc[coff(a):coff(b)]) }
		normalizeCounter++
		n := normalizeCounter
		var sb strings.Builder
		sb.WriteString(prefix)
		// result variables
		var rvars, rtypes, rnames []string
		var rgotypes []types.Type
		if fd.Type.Results != nil {
			i := 0
			for _, f := range fd.Type.Results.List {
				tt := ctext(f.Type.Pos(), f.Type.End())
				cnt := len(f.Names)
				if cnt == 0 {
					cnt = 1
				}
				for k := 0; k < cnt; k++ {
					rv := fmt.Sprintf("pkoInl%dR%d", n, i)
					rvars = append(rvars, rv)
					rtypes = append(rtypes, tt)
					rgotypes = append(rgotypes, pk.TypesInfo.TypeOf(f.Type))
					if len(f.Names) > 0 {
						rnames = append(rnames, f.Names[k].Name)
					}
					i++
				}
			}
		}
		for i, rv := range rvars {
			fmt.Fprintf(&sb, "var %s %s\n_ = %s\n", rv, rtypes[i], rv)
		}
		// argument temporaries (typed, evaluated in the caller's scope, in order)
		type bind struct{ name, typ, tmp string }
		var binds []bind
		if fd.Recv != nil && len(fd.Recv.List) == 1 && recvExpr != nil {
			f := fd.Recv.List[0]
			name := "_"
			if len(f.Names) == 1 {
				name = f.Names[0].Name
			}
			tmp := fmt.Sprintf("pkoInl%dA%d", n, len(binds))
			fmt.Fprintf(&sb, "var %s %s = %s\n_ = %s\n", tmp, ctext(f.Type.Pos(), f.Type.End()), text(recvExpr.Pos(), recvExpr.End()), tmp)
			binds = append(binds, bind{name, ctext(f.Type.Pos(), f.Type.End()), tmp})
		} else if fd.Recv != nil {
			return
		}
		ai := 0
		if fd.Type.Params != nil {
			for _, f := range fd.Type.Params.List {
				cnt := len(f.Names)
				names := []string{}
				for _, nm := range f.Names {
					names = append(names, nm.Name)
				}
				if cnt == 0 {
					cnt = 1
					names = []string{"_"}
				}
				for k := 0; k < cnt; k++ {
					if ai >= len(call.Args) {
						return
					}
					tmp := fmt.Sprintf("pkoInl%dA%d", n, len(binds))
					tt := ctext(f.Type.Pos(), f.Type.End())
					if tt == "pkoAuto" {
						// synthetic generic helper: the argument keeps its own type
						fmt.Fprintf(&sb, "%s := %s\n_ = %s\n", tmp, text(call.Args[ai].Pos(), call.Args[ai].End()), tmp)
					} else {
						fmt.Fprintf(&sb, "var %s %s = %s\n_ = %s\n", tmp, tt, text(call.Args[ai].Pos(), call.Args[ai].End()), tmp)
					}
					binds = append(binds, bind{names[k], tt, tmp})
					ai++
				}
			}
		}
		if ai != len(call.Args) {
			return
		}
		label := fmt.Sprintf("pkoInl%dEnd", n)
		// tail duplication: when the statements after the call end the enclosing block with a jump,
		// every return of the helper continues with its own copy of them, so that results do not
		// merge in a variable (the shape the code had before the helper was extracted)
		dupTail, dupEnd, conflicts := p.tailDuplicable(pk, fd, st, rest, prefix != "" || wrapAlways)
		// alpha-rename the helper's own declarations that would capture names of the continuation
		type renOcc struct {
			off, n int
		}
		var renames []renOcc
		rename := func(name string) string { return name }
		if dupTail && len(conflicts) > 0 {
			sfx := fmt.Sprintf("_pkoInl%d", n)
			rename = func(name string) string {
				if conflicts[name] {
					return name + sfx
				}
				return name
			}
			ast.Inspect(fd, func(nd ast.Node) bool {
				id, isID := nd.(*ast.Ident)
				if !isID || !conflicts[id.Name] {
					return true
				}
				obj := pk.TypesInfo.Defs[id]
				if obj == nil {
					obj = pk.TypesInfo.Uses[id]
				}
				if obj == nil || obj.Pos() < fd.Pos() || obj.Pos() >= fd.End() {
					return true
				}
				if v, isVar := obj.(*types.Var); isVar && v.IsField() {
					return true
				}
				renames = append(renames, renOcc{coff(id.Pos()), len(id.Name)})
				return true
			})
			sort.Slice(renames, func(i, j int) bool { return renames[i].off < renames[j].off })
			plain := ctext
			ctext = func(a, b token.Pos) string {
				lo, hi := coff(a), coff(b)
				var out strings.Builder
				cur := lo
				for _, r := range renames {
					if r.off < lo || r.off+r.n > hi {
						continue
					}
					out.WriteString(string(csrc[cur:r.off]))
					out.WriteString(string(csrc[r.off:r.off+r.n]) + sfx)
					cur = r.off + r.n
				}
				out.WriteString(string(csrc[cur:hi]))
				_ = plain
				return out.String()
			}
		}
		sb.WriteString("{\n")
		for _, b := range binds {
			if b.name == "_" {
				continue
			}
			fmt.Fprintf(&sb, "%s := %s\n_ = %s\n", rename(b.name), b.tmp, rename(b.name))
		}
		for i, nm := range rnames {
			if nm == "_" {
				continue
			}
			fmt.Fprintf(&sb, "%s := %s\n_ = %s\n", rename(nm), rvars[i], rename(nm))
		}
		// body with returns rewritten
		var rets []*ast.ReturnStmt
		var walk func(n ast.Node) bool
		walk = func(nd ast.Node) bool {
			switch x := nd.(type) {
			case *ast.FuncLit:
				return false
			case *ast.ReturnStmt:
				rets = append(rets, x)
			}
			return true
		}
		ast.Inspect(fd.Body, walk)
		sort.Slice(rets, func(i, j int) bool { return rets[i].Pos() < rets[j].Pos() })
		lineDir := func(pos token.Pos) string {
			ps := p.Fset.PositionFor(pos, false)
			return fmt.Sprintf("/*line %s:%d:%d*/", ps.Filename, ps.Line, ps.Column)
		}
		cur := fd.Body.Lbrace + 1
		sb.WriteString(lineDir(cur))
		usedLabel := false
		for _, r := range rets {
			sb.WriteString(ctext(cur, r.Pos()))
			sb.WriteString("{ ")
			vals := rvars
			switch {
			case dupTail && len(r.Results) > 0 && len(r.Results) == len(rvars):
				// the continuation copy uses the returned expressions directly
				vals = nil
				for i, e := range r.Results {
					v := "(" + lineDir(e.Pos()) + ctext(e.Pos(), e.End()) + ")"
					// the returned expression takes the place of a variable of the result type: an
					// untyped nil/constant or a value of another (assignable) type is converted to it,
					// as the return statement did
					if et := pk.TypesInfo.TypeOf(e); et == nil || rgotypes[i] == nil || !types.Identical(et, rgotypes[i]) {
						v = "((" + rtypes[i] + ")" + v + ")"
					}
					vals = append(vals, v)
				}
			case dupTail && len(r.Results) == 1 && len(rvars) > 1:
				vals = []string{lineDir(r.Results[0].Pos()) + ctext(r.Results[0].Pos(), r.Results[0].End())}
			case dupTail && len(r.Results) == 0 && len(rnames) > 0:
				vals = mapStrings(rnames, rename)
			case len(r.Results) > 0 && len(rvars) > 0:
				fmt.Fprintf(&sb, "%s = %s%s; ", strings.Join(rvars, ", "), lineDir(r.Results[0].Pos()), ctext(r.Results[0].Pos(), r.Results[len(r.Results)-1].End()))
			case len(r.Results) == 0 && len(rnames) > 0:
				fmt.Fprintf(&sb, "%s = %s; ", strings.Join(rvars, ", "), strings.Join(mapStrings(rnames, rename), ", "))
			}
			if dupTail {
				sb.WriteString(lineDir(st.Pos()))
				if sprime := rebuild(vals); sprime != "" {
					sb.WriteString(sprime)
				} else if len(rvars) > 0 && len(vals) > 0 {
					// results discarded by the caller: still evaluate the returned expressions
					blanks := make([]string, len(rvars))
					for i := range blanks {
						blanks[i] = "_"
					}
					sb.WriteString(strings.Join(blanks, ", ") + " = " + strings.Join(vals, ", "))
				}
				if replEnd < st.End() {
					sb.WriteString(text(replEnd, st.End()))
				}
				if folded, ok := p.foldLeadingNilTest(pk, st, call, rest, r, len(rvars), dupEnd, text, lineDir); ok {
					// the continuation starts with a nil test of a result whose returned expression is
					// statically nil / non-nil: only the branch this return takes is copied (the code as
					// it was before the helper was extracted — no infeasible fall-through)
					sb.WriteString(folded)
				} else if len(rest) > 0 {
					sb.WriteString("\n" + lineDir(rest[0].Pos()))
					sb.WriteString(text(rest[0].Pos(), dupEnd))
				}
				sb.WriteString("\n}")
			} else {
				fmt.Fprintf(&sb, "goto %s }", label)
				usedLabel = true
			}
			cur = r.End()
			sb.WriteString(lineDir(cur))
		}
		sb.WriteString(ctext(cur, fd.Body.Rbrace))
		// falling off the end of a function with named results (cannot happen: a function with
		// results ends in a terminating statement; kept for the goto form, where it is harmless)
		if len(rnames) > 0 && !dupTail {
			fmt.Fprintf(&sb, "\n%s = %s\n", strings.Join(rvars, ", "), strings.Join(mapStrings(rnames, rename), ", "))
		}
		sb.WriteString("\n}\n")
		if usedLabel {
			fmt.Fprintf(&sb, "%s:\n", label)
		}
		end := p.Fset.PositionFor(st.Pos(), false)
		fmt.Fprintf(&sb, "/*line %s:%d:%d*/", end.Filename, end.Line, end.Column)
		tail := rebuild(rvars)
		if tail == "" && usedLabel {
			tail = ";" // a label needs a statement
		}
		if dupTail && len(rvars) > 0 {
			tail = "" // unreachable: every return of the helper continued with its own copy
		}
		sb.WriteString(tail)
		sb.WriteString(suffix)
		if dupTail {
			// the original continuation stays after the block only when control can fall off the
			// helper's end (a helper without results); a helper with results ends in a terminating
			// statement, and so does the block that replaces it
			if len(rvars) == 0 {
				if replEnd < st.End() {
					sb.WriteString(text(replEnd, st.End()))
				}
				if len(rest) > 0 {
					sb.WriteString("\n" + lineDir(rest[0].Pos()))
					sb.WriteString(text(rest[0].Pos(), dupEnd))
				}
			}
			replEnd = dupEnd
		}
		after := p.Fset.PositionFor(replEnd, false)
		fmt.Fprintf(&sb, "/*line %s:%d:%d*/", after.Filename, after.Line, after.Column)
		emit(fileEdit{off(replStart), off(replEnd), sb.String()},
			fmt.Sprintf("%s inlined into %s at %s", fd.Name.Name, caller.Name.Name, p.Pos(st.Pos())))
		if cfile == p.synthFile && cfile != nil {
			// the package may lose its last use in this file: keep the import alive
			if sel, ok := call.Fun.(*ast.SelectorExpr); ok {
				if id := identOf(sel.X); id != nil {
					emit(fileEdit{len(src), len(src), "\nvar _ = " + id.Name + ".Contains[[]int, int]\n"}, "")
				}
			}
		}
	}
	handleList = func(list []ast.Stmt) {
		for i, st := range list {
			handleStmt(st, false, list[i+1:])
			// else-if chains: the nested if is not an element of a statement list
			if ifs, ok := st.(*ast.IfStmt); ok {
				for e := ifs.Else; e != nil; {
					nested, isIf := e.(*ast.IfStmt)
					if !isIf {
						break
					}
					handleStmt(nested, true, nil)
					e = nested.Else
				}
			}
		}
	}
	ast.Inspect(caller.Body, func(n ast.Node) bool {
		switch x := n.(type) {
		case *ast.BlockStmt:
			handleList(x.List)
		case *ast.CaseClause:
			handleList(x.Body)
		case *ast.CommClause:
			handleList(x.Body)
		}
		return true
	})
}

// sameImportNames: every package name used in the helper's signature and body is imported under
// the same name (same path) in the caller's file.
func sameImportNames(pk *packages.Package, callerFile, calleeFile *ast.File, fd *ast.FuncDecl) bool {
	imports := func(f *ast.File) map[string]string {
		m := map[string]string{}
		for _, im := range f.Imports {
			path := strings.Trim(im.Path.Value, "\"")
			name := ""
			if im.Name != nil {
				name = im.Name.Name
			}
			m[path] = name
		}
		return m
	}
	ci, hi := imports(callerFile), imports(calleeFile)
	ok := true
	ast.Inspect(fd, func(n ast.Node) bool {
		id, isID := n.(*ast.Ident)
		if !isID {
			return true
		}
		if pn, isPkg := pk.TypesInfo.Uses[id].(*types.PkgName); isPkg {
			path := pn.Imported().Path()
			cn, present := ci[path]
			if !present || cn != hi[path] {
				ok = false
			}
		}
		return ok
	})
	return ok
}

// noCapture: every identifier of the helper that refers to a package-level object or an imported
// package resolves to the same object at the call site (no local of the caller shadows it), and no
// parameter/result name of the helper hides something the helper's own body needs from outside.
func (p *Program) noCapture(pk *packages.Package, callerFile *ast.File, fd *ast.FuncDecl, call *ast.CallExpr) bool {
	inner := pk.Types.Scope().Innermost(call.Pos())
	if inner == nil {
		return false
	}
	ok := true
	visit := func(n ast.Node) bool {
		id, isID := n.(*ast.Ident)
		if !isID {
			return true
		}
		obj := pk.TypesInfo.Uses[id]
		if obj == nil {
			return true
		}
		_, isPkgName := obj.(*types.PkgName)
		pkgLevel := obj.Parent() == pk.Types.Scope() || obj.Parent() == types.Universe || isPkgName
		if !pkgLevel {
			return true
		}
		if _, found := inner.LookupParent(id.Name, call.Pos()); found == nil {
			return true
		} else if found != obj {
			// file-scope PkgName objects differ per file although they denote the same package
			if a, okA := found.(*types.PkgName); okA {
				if b, okB := obj.(*types.PkgName); okB && a.Imported() == b.Imported() {
					return true
				}
			}
			ok = false
		}
		return ok
	}
	ast.Inspect(fd.Body, visit)
	// the parameter, result and receiver types are written out at the call site as well
	ast.Inspect(fd.Type, visit)
	if fd.Recv != nil {
		ast.Inspect(fd.Recv, visit)
	}
	return ok
}

// LoadNormalized loads the tree and, if it contains new helpers, re-loads it with their calls inlined.
func LoadNormalized(repoDir, tier string, overlay map[string][]byte) (*Program, error) {
	prog, err := Load(repoDir, tier, overlay)
	if err != nil || os.Getenv("PKOCHECK_NO_NORMALIZE") != "" {
		return prog, err
	}
	cur := map[string][]byte{}
	for k, v := range overlay {
		cur[k] = v
	}
	var notes []string
	apply := func(ov map[string][]byte, ns []string, what string) bool {
		if len(ov) == 0 {
			return false
		}
		next := map[string][]byte{}
		for k, v := range cur {
			next[k] = v
		}
		for k, v := range ov {
			next[k] = v
		}
		np, err := Load(repoDir, tier, next)
		if err != nil {
			// the rewritten program does not type-check (an unforeseen capture): keep the last good one
			prog.Normalized = append(prog.Normalized, what+" abandoned: "+firstLine(err.Error()))
			if os.Getenv("PKOCHECK_DEBUG_NORMALIZE") != "" {
				for k, v := range ov {
					fmt.Fprintf(os.Stderr, "=== %s\n%s\n", k, v)
				}
				fmt.Fprintln(os.Stderr, err)
			}
			return false
		}
		np.Normalized = prog.Normalized
		prog, cur = np, next
		notes = append(notes, ns...)
		return true
	}
	// range statements over standard-library iterators go back to the loops they are defined as (normalize_iter.go)
	if ov, ns := prog.iterRangeOverlay(cur); len(ov) > 0 {
		apply(ov, ns, "iterator range normalisation")
	}
	// alternate: undo renames (types/fields/vars, then functions), then one round of helper inlining;
	// inlining restores the callee sets of renamed functions whose bodies were split up, so rename
	// tracking gets another chance after every round
	for round := 0; round < 6; round++ {
		changed := false
		for step, planner := range []func(*Program) *renamePlan{(*Program).planUnrename, (*Program).planFuncUnrename, (*Program).planFuncUnrename} {
			plan := planner(prog)
			if plan == nil {
				continue
			}
			if apply(prog.unrenameOverlay(plan, cur), plan.notes, fmt.Sprintf("rename normalisation step %d", step)) {
				changed = true
			}
		}
		// locals collected into a new record type go back to separate locals (normalize_records.go)
		if rov, rns := prog.localRecordOverlay(cur); apply(rov, rns, "local record normalisation") {
			changed = true
		}
		ov, ns := prog.newHelperOverlay(cur, round < 2)
		if apply(ov, ns, "helper inlining") {
			changed = true
		} else if round < 2 {
			// nothing to inline while protecting rename candidates: release them
			ov, ns = prog.newHelperOverlay(cur, false)
			if apply(ov, ns, "helper inlining") {
				changed = true
			}
		}
		if !changed {
			break
		}
	}
	prog.Normalized = append(prog.Normalized, notes...)
	prog.Normalized = append(prog.Normalized, prog.remainingNewHelperCalls()...)
	return prog, nil
}

// remainingNewHelperCalls lists calls of new helpers that the pre-pass left in place (diagnostics).
func (p *Program) remainingNewHelperCalls() []string {
	recorded := recordedAnchors()
	if len(recorded) < 100 {
		return nil
	}
	newObj := map[types.Object]bool{}
	for _, fn := range p.Funcs {
		if fn.Parent() != nil || fn.Synthetic != "" || fn.Object() == nil || isNonProductPkg(funcPkgPath(fn)) {
			continue
		}
		if _, ok := recorded[funcID(fn)]; ok {
			continue
		}
		if _, renamed := p.alias[fn]; renamed {
			continue
		}
		newObj[fn.Object()] = true
	}
	var out []string
	for _, pk := range p.Pkgs {
		for _, f := range pk.Syntax {
			for _, d := range f.Decls {
				fd, ok := d.(*ast.FuncDecl)
				if !ok || fd.Body == nil {
					continue
				}
				if obj := pk.TypesInfo.Defs[fd.Name]; obj != nil && newObj[obj] {
					continue
				}
				ast.Inspect(fd.Body, func(n ast.Node) bool {
					id, ok := n.(*ast.Ident)
					if !ok {
						return true
					}
					if obj := pk.TypesInfo.Uses[id]; obj != nil && newObj[obj] {
						out = append(out, fmt.Sprintf("left in place: %s used in %s at %s", id.Name, fd.Name.Name, p.Pos(id.Pos())))
					}
					return true
				})
			}
		}
	}
	sort.Strings(out)
	return out
}

// tailDuplicable decides whether the statements following st in its list (rest) may be copied to
// every return site of the helper fd. Returns the end of the copied range.
func (p *Program) tailDuplicable(pk *packages.Package, fd *ast.FuncDecl, st ast.Stmt, rest []ast.Stmt, wrapped bool) (bool, token.Pos, map[string]bool) {
	if wrapped {
		return false, token.NoPos, nil
	}
	// the helper must have several returns (otherwise nothing merges), none inside a closure
	nret, retNested := 0, false
	var stack []ast.Node
	ast.Inspect(fd.Body, func(n ast.Node) bool {
		if n == nil {
			stack = stack[:len(stack)-1]
			return false
		}
		if _, isLit := n.(*ast.FuncLit); isLit {
			return false
		}
		if _, isRet := n.(*ast.ReturnStmt); isRet {
			nret++
			for _, a := range stack {
				switch a.(type) {
				case *ast.ForStmt, *ast.RangeStmt, *ast.SwitchStmt, *ast.TypeSwitchStmt, *ast.SelectStmt:
					retNested = true
				}
			}
		}
		stack = append(stack, n)
		return true
	})
	if nret < 2 {
		return false, token.NoPos, nil
	}
	// the continuation must end the block with a jump
	last := st
	if len(rest) > 0 {
		last = rest[len(rest)-1]
	}
	switch x := last.(type) {
	case *ast.ReturnStmt:
	case *ast.BranchStmt:
		if x.Label != nil || (x.Tok != token.BREAK && x.Tok != token.CONTINUE) {
			return false, token.NoPos, nil
		}
	case *ast.ExprStmt:
		c, ok := x.X.(*ast.CallExpr)
		if !ok {
			return false, token.NoPos, nil
		}
		if id, ok := c.Fun.(*ast.Ident); !ok || id.Name != "panic" {
			return false, token.NoPos, nil
		}
	default:
		return false, token.NoPos, nil
	}
	if last == st {
		if _, isRet := st.(*ast.ReturnStmt); !isRet {
			return false, token.NoPos, nil
		}
	}
	end := last.End()
	from := st.Pos()
	if p.Fset.PositionFor(end, false).Offset-p.Fset.PositionFor(from, false).Offset > 4000 || nret > 8 {
		return false, token.NoPos, nil
	}
	// no labels/gotos in the copied statements; unlabelled break/continue only if no helper return
	// sits inside a loop/switch/select of the helper (it would bind to that statement)
	ok := true
	check := func(n ast.Node) bool {
		switch x := n.(type) {
		case *ast.LabeledStmt:
			ok = false
		case *ast.BranchStmt:
			if x.Label != nil || x.Tok == token.GOTO || retNested {
				ok = false
			}
		}
		return ok
	}
	ast.Inspect(st, check)
	for _, r := range rest {
		ast.Inspect(r, check)
	}
	if !ok {
		return false, token.NoPos, nil
	}
	// capture: a name declared in the helper that the copied statements use for something declared
	// outside the copied range must be renamed inside the helper body (conflicts)
	conflicts := map[string]bool{}
	declared := map[string]bool{}
	ast.Inspect(fd, func(n ast.Node) bool {
		if id, isID := n.(*ast.Ident); isID {
			if obj := pk.TypesInfo.Defs[id]; obj != nil && id != fd.Name {
				declared[id.Name] = true
			}
		}
		return true
	})
	uses := func(n ast.Node) bool {
		if id, isID := n.(*ast.Ident); isID && declared[id.Name] {
			if obj := pk.TypesInfo.Uses[id]; obj != nil {
				if _, isField := obj.(*types.Var); isField && obj.(*types.Var).IsField() {
					return true
				}
				if obj.Pos() < from || obj.Pos() >= end {
					conflicts[id.Name] = true
				}
			}
		}
		return ok
	}
	ast.Inspect(st, uses)
	for _, r := range rest {
		ast.Inspect(r, uses)
	}
	return ok, end, conflicts
}

func mapStrings(xs []string, f func(string) string) []string {
	out := make([]string, len(xs))
	for i, x := range xs {
		out[i] = f(x)
	}
	return out
}

// alias2: fn was matched by rename tracking.
func (p *Program) alias2(fn *ssa.Function) bool {
	_, ok := p.alias[fn]
	return ok
}

// callsUnrecorded: fn statically calls a workspace function that is neither recorded nor a tracked
// rename (i.e. part of its former body may have been moved into a new helper).
func (p *Program) callsUnrecorded(fn *ssa.Function, recorded map[string]anchorFP) bool {
	for _, c := range callsIn(fn) {
		callee := staticCallee(c.Common)
		if callee == nil || callee == fn || callee.Parent() != nil || callee.Synthetic != "" || callee.Object() == nil {
			continue
		}
		if o := callee.Origin(); o != nil {
			callee = o
		}
		if isNonProductPkg(funcPkgPath(callee)) || p.ByPath[funcPkgPath(callee)] == nil {
			continue
		}
		if _, ok := recorded[funcID(callee)]; ok {
			continue
		}
		if p.alias2(callee) {
			continue
		}
		return true
	}
	return false
}

// staticNilness: the expression is the predeclared nil (1), or can never be nil — the address of a
// composite literal, fmt.Errorf(…), errors.New(…) — (2); 0 = not decided.
func staticNilness(pk *packages.Package, e ast.Expr) int {
	e = ast.Unparen(e)
	if tv, ok := pk.TypesInfo.Types[e]; ok && tv.IsNil() {
		return 1
	}
	switch x := e.(type) {
	case *ast.UnaryExpr:
		if x.Op == token.AND {
			if _, isLit := ast.Unparen(x.X).(*ast.CompositeLit); isLit {
				return 2
			}
		}
	case *ast.CallExpr:
		var id *ast.Ident
		switch f := ast.Unparen(x.Fun).(type) {
		case *ast.SelectorExpr:
			id = f.Sel
		case *ast.Ident:
			id = f
		}
		if id != nil {
			if fn, ok := pk.TypesInfo.Uses[id].(*types.Func); ok && fn.Pkg() != nil {
				switch fn.Pkg().Path() + "." + fn.Name() {
				case "fmt.Errorf", "errors.New":
					return 2
				}
			}
		}
	}
	return 0
}

// foldLeadingNilTest: st is `a, b := helper(…)` (or `=`), the first statement of the continuation is
// `if b != nil {…}` / `if b == nil {…} [else …]` on one of the variables st assigns, and the helper
// return r gives that variable an expression that is statically nil or non-nil. Returns the
// continuation for this return with the test decided: the taken branch, followed by the remaining
// statements unless that branch ends in a jump. (Without this the copy keeps a branch that the
// return can never take, and every path-based rule sees a path that does not exist.)
func (p *Program) foldLeadingNilTest(pk *packages.Package, st ast.Stmt, call *ast.CallExpr, rest []ast.Stmt, r *ast.ReturnStmt,
	nres int, dupEnd token.Pos, text func(a, b token.Pos) string, lineDir func(token.Pos) string) (string, bool) {
	as, ok := st.(*ast.AssignStmt)
	if !ok || len(as.Rhs) != 1 || ast.Unparen(as.Rhs[0]) != ast.Expr(call) || len(as.Lhs) != nres || len(r.Results) != nres || len(rest) == 0 {
		return "", false
	}
	if as.Tok != token.DEFINE && as.Tok != token.ASSIGN {
		return "", false
	}
	ifs, ok := rest[0].(*ast.IfStmt)
	if !ok || ifs.Init != nil {
		return "", false
	}
	be, ok := ast.Unparen(ifs.Cond).(*ast.BinaryExpr)
	if !ok || (be.Op != token.NEQ && be.Op != token.EQL) {
		return "", false
	}
	x, y := ast.Unparen(be.X), ast.Unparen(be.Y)
	if tv, isNil := pk.TypesInfo.Types[x]; isNil && tv.IsNil() {
		x, y = y, x
	}
	if tv, ok := pk.TypesInfo.Types[y]; !ok || !tv.IsNil() {
		return "", false
	}
	xid, ok := x.(*ast.Ident)
	if !ok || xid.Name == "_" {
		return "", false
	}
	objOf := func(id *ast.Ident) types.Object {
		if o := pk.TypesInfo.Defs[id]; o != nil {
			return o
		}
		return pk.TypesInfo.Uses[id]
	}
	k := -1
	var names []string
	for i, l := range as.Lhs {
		lid, isID := ast.Unparen(l).(*ast.Ident)
		if !isID {
			return "", false
		}
		if lid.Name != "_" {
			names = append(names, lid.Name)
		}
		if lid.Name == xid.Name && objOf(lid) != nil && objOf(lid) == objOf(xid) {
			k = i
		}
	}
	if k < 0 {
		return "", false
	}
	nilness := staticNilness(pk, r.Results[k])
	if nilness == 0 {
		return "", false
	}
	taken := (be.Op == token.NEQ) == (nilness == 2)
	var sb strings.Builder
	// the assigned variables may have been used by the dropped test only
	for _, n := range names {
		sb.WriteString("\n_ = " + n)
	}
	terminated := false
	if taken {
		sb.WriteString("\n{" + lineDir(ifs.Body.Lbrace+1) + text(ifs.Body.Lbrace+1, ifs.Body.Rbrace) + "}")
		if n := len(ifs.Body.List); n > 0 {
			switch l := ifs.Body.List[n-1].(type) {
			case *ast.ReturnStmt, *ast.BranchStmt:
				terminated = true
			case *ast.ExprStmt:
				if c, isCall := l.X.(*ast.CallExpr); isCall {
					if id, isID := c.Fun.(*ast.Ident); isID && id.Name == "panic" && pk.TypesInfo.Uses[id] == types.Universe.Lookup("panic") {
						terminated = true
					}
				}
			}
		}
	} else if ifs.Else != nil {
		// else block / else-if chain, as a statement of its own
		sb.WriteString("\n" + lineDir(ifs.Else.Pos()) + text(ifs.Else.Pos(), ifs.Else.End()))
	}
	if !terminated && len(rest) > 1 {
		sb.WriteString("\n" + lineDir(rest[1].Pos()) + text(rest[1].Pos(), dupEnd))
	}
	return sb.String(), true
}

func identOf(e ast.Expr) *ast.Ident {
	id, _ := e.(*ast.Ident)
	return id
}

// Synthetic loop helpers for the standard library's generic search functions. A loop that was
// replaced by slices.ContainsFunc/IndexFunc/Contains/Index ("modernised") is turned back into a loop:
// the call is inlined like a new helper with the bodies below; the predicate argument is bound to a
// local whose application is inlined in the next round. Parameters of the marker type pkoAuto are
// bound with := (a generic function does not convert its arguments).
const syntheticStdSrc = `package pkostd

func pkoStdContainsFunc(pkoStdS pkoAuto, pkoStdF pkoAuto) bool {
	for pkoStdI := range pkoStdS {
		if pkoStdF(pkoStdS[pkoStdI]) {
			return true
		}
	}
	return false
}

func pkoStdIndexFunc(pkoStdS pkoAuto, pkoStdF pkoAuto) int {
	for pkoStdI := range pkoStdS {
		if pkoStdF(pkoStdS[pkoStdI]) {
			return pkoStdI
		}
	}
	return -1
}

func pkoStdContains(pkoStdS pkoAuto, pkoStdV pkoAuto) bool {
	for pkoStdI := range pkoStdS {
		if pkoStdS[pkoStdI] == pkoStdV {
			return true
		}
	}
	return false
}

func pkoStdIndex(pkoStdS pkoAuto, pkoStdV pkoAuto) int {
	for pkoStdI := range pkoStdS {
		if pkoStdS[pkoStdI] == pkoStdV {
			return pkoStdI
		}
	}
	return -1
}
`

const syntheticStdFile = "/pkocheck-synthetic/pko_std.go"

func (p *Program) syntheticStdHelper(name string) (*ast.FuncDecl, *ast.File) {
	// Experiment, off by default: turning "modernised" loops back into loops type-checks and works
	// mechanically, but the rules had meanwhile learnt the closure forms themselves (and
	// patterns.go canonicalCall the predicate spellings); the canonical loop this produces is a
	// third shape they would have to learn. Kept for the record (DESIGN.md section 8.5).
	if os.Getenv("PKOCHECK_DEMODERNISE") == "" {
		return nil, nil
	}
	if p.synthFile == nil {
		f, err := parser.ParseFile(p.Fset, syntheticStdFile, syntheticStdSrc, 0)
		if err != nil {
			return nil, nil
		}
		p.synthFile = f
		if p.synthSrc == nil {
			p.synthSrc = map[string][]byte{}
		}
		p.synthSrc[syntheticStdFile] = []byte(syntheticStdSrc)
	}
	for _, d := range p.synthFile.Decls {
		if fd, ok := d.(*ast.FuncDecl); ok && fd.Name.Name == "pkoStd"+name {
			return fd, p.synthFile
		}
	}
	return nil, nil
}

// stdUseIsNew: the function containing the call did not call this standard-library function in the
// pinned tree (so the use replaced hand-written code); unrecorded callers count as new.
func (p *Program) stdUseIsNew(pk *packages.Package, caller *ast.FuncDecl, calleeID string) bool {
	obj, _ := pk.TypesInfo.Defs[caller.Name].(*types.Func)
	if obj == nil {
		return false
	}
	rec, ok := recordedAnchors()[obj.FullName()]
	if !ok {
		return true
	}
	for _, c := range rec.Callees {
		if c == calleeID {
			return false
		}
	}
	return true
}

// closureVarDecl presents the func literal bound (directly or through single-assignment aliases) to
// the local variable v as a helper declaration, when every free local variable of the literal still
// denotes the same object at v's call sites (checked by the caller through noCapture for package-level
// names; here: v and its aliases are assigned exactly once).
func closureVarDecl(pk *packages.Package, caller *ast.FuncDecl, v *types.Var) *ast.FuncDecl {
	defs := map[types.Object]ast.Expr{}
	assigns := map[types.Object]int{}
	ast.Inspect(caller.Body, func(n ast.Node) bool {
		as, ok := n.(*ast.AssignStmt)
		if !ok || len(as.Lhs) != len(as.Rhs) {
			return true
		}
		for i, l := range as.Lhs {
			id, ok := l.(*ast.Ident)
			if !ok {
				continue
			}
			obj := pk.TypesInfo.Defs[id]
			if obj == nil {
				obj = pk.TypesInfo.Uses[id]
			}
			if obj == nil {
				continue
			}
			assigns[obj]++
			defs[obj] = as.Rhs[i]
		}
		return true
	})
	var cur types.Object = v
	for hop := 0; hop < 4; hop++ {
		if assigns[cur] != 1 {
			return nil
		}
		switch rhs := ast.Unparen(defs[cur]).(type) {
		case *ast.FuncLit:
			// free locals of the literal must not be reassigned-and-shadowed: require that the literal
			// uses no local that is declared after it (impossible) — and that none of its free locals is
			// shadowed at the use; the synthetic helpers introduce only pkoStd*/pkoInl* names, which the
			// literal cannot mention
			return &ast.FuncDecl{Name: ast.NewIdent(v.Name()), Type: rhs.Type, Body: rhs.Body}
		case *ast.Ident:
			next := pk.TypesInfo.Uses[rhs]
			if next == nil {
				return nil
			}
			cur = next
		default:
			return nil
		}
	}
	return nil
}
