package main

import (
	"go/token"
	"go/types"

	"golang.org/x/tools/go/ssa"
)

// remoteRefRule (used by C15.R3 and C01.R2's delegated-phase clause): status.remotePhases must carry
// the name+UID of the ObjectSetPhase that exists *now* — adoption through a previous revision's
// delegated phases compares UIDs. Structural core: the function that merges a RemotePhaseReference
// into the list stores the new reference into the returned slice on every path (overwrite on a name
// match, append otherwise), and its caller builds the reference from the current phase object.
func remoteRefRule(c *Ctx) {
	p := c.P
	n := 0
	for _, fn := range p.FuncsIn(pkgObjectSets) {
		// selected by signature: (…[]RemotePhaseReference, RemotePhaseReference) []RemotePhaseReference
		sig := fn.Signature
		if sig.Recv() != nil || sig.Params().Len() != 2 || sig.Results().Len() != 1 {
			continue
		}
		if !isSliceOfNamed(sig.Params().At(0).Type(), pkgCoreV1+".RemotePhaseReference") ||
			namedTypeString(sig.Params().At(1).Type()) != pkgCoreV1+".RemotePhaseReference" ||
			!isSliceOfNamed(sig.Results().At(0).Type(), pkgCoreV1+".RemotePhaseReference") {
			continue
		}
		n++
		refParam := fn.Params[1]
		isRef := func(v ssa.Value) bool {
			v = stripConv(v)
			if v == ssa.Value(refParam) {
				return true
			}
			if u, ok := v.(*ssa.UnOp); ok && u.Op == token.MUL {
				if a, ok := u.X.(*ssa.Alloc); ok {
					sts, known := p.storesReaching(a, u)
					if known && len(sts) == 1 && stripConv(sts[0].Val) == ssa.Value(refParam) {
						return true
					}
				}
			}
			return false
		}
		for _, rc := range p.returnCases(fn) {
			o := c.Ob(fn, "return", rc.Ret, "the merged list returned on every path contains the reference passed in (same-name entries are overwritten, not kept)")
			ret := rc.Ret
			res := rc.Results[0]
			ok := false
			// (a) result is append(_, [ref])
			if call, _ := asCall(res); call != nil && isCallTo(call.Common(), "builtin:append") && len(call.Common().Args) == 2 {
				if elems, known := sliceElems(call.Common().Args[1]); known {
					for _, e := range elems {
						if isRef(e) {
							ok = true
						}
					}
				}
			}
			// (b) a store of ref into an element of the returned slice precedes the return
			if !ok {
				ok = p.mustPrecede(ret, func(in ssa.Instruction) bool {
					st, isSt := in.(*ssa.Store)
					if !isSt || !isRef(st.Val) {
						return false
					}
					ia, isIA := st.Addr.(*ssa.IndexAddr)
					return isIA && p.sameValue(ia.X, res)
				})
			}
			if ok {
				o.OK()
			} else {
				o.Fail("a path returns the list without the new reference being stored into it: a stale name/UID entry survives, so adoption through this revision's delegated phase (UID comparison) fails after the phase object was re-created")
			}
		}
		// callers build the reference from the current phase object
		for _, call := range p.callersOf(fn) {
			o := c.Ob(call.Fn, "RemotePhaseReference", call.Instr, "the recorded reference is built from the phase object read or created in this pass (Name and UID of the same object)")
			f, _, okc := compositeFields(call.Common.Args[1])
			if !okc {
				o.Unknown("reference argument is not a composite literal")
				continue
			}
			nameCall, _ := asCall(f["Name"])
			uidCall, _ := asCall(f["UID"])
			if nameCall == nil || uidCall == nil || calleeName(nameCall.Common()) != "GetName" || calleeName(uidCall.Common()) != "GetUID" {
				o.Fail("Name/UID are not read through GetName()/GetUID()")
				continue
			}
			if !p.sameValue(callRecv(nameCall.Common()), callRecv(uidCall.Common())) {
				o.Fail("Name and UID are taken from different objects")
				continue
			}
			o.OK("from " + p.describe(callRecv(uidCall.Common())))
		}
	}
	if n == 0 {
		c.AnchorLost("function merging a RemotePhaseReference into []RemotePhaseReference in " + pkgObjectSets)
	}
}

func isSliceOfNamed(t types.Type, name string) bool {
	sl, ok := t.Underlying().(*types.Slice)
	return ok && namedTypeString(sl.Elem()) == name
}
