package main

import (
	"go/constant"
	"go/token"
	"go/types"
	"strings"

	"golang.org/x/tools/go/ssa"
)

// Generic guard helpers added for C01/C02 (usable by any rule file).

// ---------------------------------------------------------------------------------------------
// Order relations between two values, derived from guard facts.

type ordRel uint8

const (
	relLT ordRel = 1 << iota
	relEQ
	relGT
	relAny = relLT | relEQ | relGT
)

func (r ordRel) String() string {
	switch r {
	case 0:
		return "contradiction"
	case relLT:
		return "<"
	case relEQ:
		return "=="
	case relGT:
		return ">"
	case relLT | relEQ:
		return "<="
	case relGT | relEQ:
		return ">="
	case relLT | relGT:
		return "!="
	}
	return "unconstrained"
}

// subsetOf: every relation still possible in r is allowed by allowed.
func (r ordRel) subsetOf(allowed ordRel) bool { return r&^allowed == 0 }

func opRel(op token.Token) (ordRel, bool) {
	switch op {
	case token.LSS:
		return relLT, true
	case token.LEQ:
		return relLT | relEQ, true
	case token.GTR:
		return relGT, true
	case token.GEQ:
		return relGT | relEQ, true
	case token.EQL:
		return relEQ, true
	case token.NEQ:
		return relLT | relGT, true
	}
	return 0, false
}

func flipRel(r ordRel) ordRel {
	out := r & relEQ
	if r&relLT != 0 {
		out |= relGT
	}
	if r&relGT != 0 {
		out |= relLT
	}
	return out
}

// relFromFacts returns what the facts establish about `a ? b` for values selected by the two
// matchers: the intersection of all comparisons (either operand order, either polarity, any of
// < <= > >= == !=) between a value matching a and a value matching b.
func (p *Program) relFromFacts(fs []Fact, a, b func(ssa.Value) bool) ordRel {
	r := relAny
	for _, f := range fs {
		bin, ok := f.Cond.(*ssa.BinOp)
		if !ok {
			continue
		}
		or, ok := opRel(bin.Op)
		if !ok {
			continue
		}
		var cur ordRel
		switch {
		case a(bin.X) && b(bin.Y):
			cur = or
		case a(bin.Y) && b(bin.X):
			cur = flipRel(or)
		default:
			continue
		}
		if !f.Pol {
			cur = relAny &^ cur
		}
		r &= cur
	}
	return r
}

func matchConstInt(n int64) func(ssa.Value) bool {
	return func(v ssa.Value) bool {
		i, ok := constInt(stripConv(v))
		return ok && i == n
	}
}

// ---------------------------------------------------------------------------------------------
// Disjunctive guards: a predicate over fact sets that must hold on every path to a block, where
// different paths may establish it through different facts (`a || b`, two ifs jumping to one block,
// a phi assigned under one of several conditions).

// holdsOnAllPaths: pred holds for the must-facts of b, or — walking backwards over the CFG and
// accumulating the facts of the edges walked — for every predecessor path (bounded depth, cycles cut).
// A known boolean Phi is split per incoming edge while walking back through its block (`ok := a; if
// !ok { ok = b }; if ok {…}`): on the edge from predecessor i the fact is about Edges[i].
func (p *Program) holdsOnAllPaths(b *ssa.BasicBlock, pred func([]Fact) bool, depth int) bool {
	return p.holdsBack(b, nil, pred, depth, map[*ssa.BasicBlock]bool{})
}

// holdsOnEdgePaths: same, for control that flows from -> to.
func (p *Program) holdsOnEdgePaths(from, to *ssa.BasicBlock, pred func([]Fact) bool, depth int) bool {
	carried, feasible := p.carryOverEdge(nil, from, to)
	if !feasible {
		return true
	}
	return p.holdsBack(from, carried, pred, depth, map[*ssa.BasicBlock]bool{})
}

// carryOverEdge extends the facts known for the path suffix starting at `to` by what taking the edge
// from->to adds: the branch fact of the edge and, for every carried fact about a boolean Phi of
// block `to`, the same fact about the value flowing in over this edge. feasible=false when a
// constant edge value contradicts a carried fact (this path cannot be the one taken).
func (p *Program) carryOverEdge(carried []Fact, from, to *ssa.BasicBlock) (out []Fact, feasible bool) {
	out = append(append([]Fact{}, carried...), p.edgeFacts(from, to)...)
	idx := -1
	for i, pr := range to.Preds {
		if pr == from {
			idx = i
		}
	}
	if idx < 0 {
		return out, true
	}
	for _, f := range append(append([]Fact{}, carried...), p.FactsAt(to)...) {
		ph, ok := f.Cond.(*ssa.Phi)
		if !ok || ph.Block() != to || idx >= len(ph.Edges) {
			continue
		}
		e := ph.Edges[idx]
		if bv, isConst := constBool(e); isConst {
			if bv != f.Pol {
				return out, false
			}
			continue
		}
		out = append(out, p.mkFact(e, f.Pol))
	}
	// a path on which the same condition is both true and false is not a path
	seen := map[string]bool{}
	for _, f := range append(append([]Fact{}, out...), p.FactsAt(from)...) {
		seen[f.key] = true
	}
	for k := range seen {
		if strings.HasPrefix(k, "T:") && seen["F:"+k[2:]] {
			return out, false
		}
	}
	return out, true
}

func (p *Program) holdsBack(b *ssa.BasicBlock, carried []Fact, pred func([]Fact) bool, depth int, onPath map[*ssa.BasicBlock]bool) bool {
	fs := append(append([]Fact{}, p.FactsAt(b)...), carried...)
	if pred(fs) {
		return true
	}
	if depth <= 0 || len(b.Preds) == 0 || onPath[b] {
		return false
	}
	onPath[b] = true
	defer delete(onPath, b)
	for _, pr := range b.Preds {
		// facts known at b hold on every path into b, so they are carried along the walk
		e, feasible := p.carryOverEdge(fs, pr, b)
		if !feasible {
			continue
		}
		if !p.holdsBack(pr, e, pred, depth-1, onPath) {
			return false
		}
	}
	return true
}

// holdsForReturn evaluates a disjunctive guard for a return case (which may have been split on an
// incoming edge of the return block).
func (p *Program) holdsForReturn(rc ReturnCase, pred func([]Fact) bool, depth int) bool {
	if rc.Pred != nil {
		return p.holdsOnEdgePaths(rc.Pred, rc.Ret.Block(), pred, depth)
	}
	return p.holdsOnAllPaths(rc.Ret.Block(), pred, depth)
}

// ---------------------------------------------------------------------------------------------
// Interface implementations inside the workspace

// implementationsOf returns the source methods named `method` of every non-generic named type
// (T or *T) declared in a product package of the workspace that implements iface.
func (p *Program) implementationsOf(iface *types.Interface, method string) []*ssa.Function {
	var out []*ssa.Function
	seen := map[*ssa.Function]bool{}
	for _, pk := range p.Pkgs {
		if isNonProductPkg(pk.PkgPath) || pk.Types == nil {
			continue
		}
		sc := pk.Types.Scope()
		for _, name := range sc.Names() {
			tn, ok := sc.Lookup(name).(*types.TypeName)
			if !ok || tn.IsAlias() {
				continue
			}
			named, ok := tn.Type().(*types.Named)
			if !ok || named.TypeParams().Len() > 0 {
				continue
			}
			if _, isIface := named.Underlying().(*types.Interface); isIface {
				continue
			}
			for _, t := range []types.Type{named, types.NewPointer(named)} {
				if !types.Implements(t, iface) {
					continue
				}
				sel := p.SSA.MethodSets.MethodSet(t).Lookup(pk.Types, method)
				if sel == nil {
					continue
				}
				fn := p.SSA.MethodValue(sel)
				if fn == nil || fn.Blocks == nil || fn.Synthetic != "" || seen[fn] {
					continue
				}
				seen[fn] = true
				out = append(out, fn)
				break
			}
		}
	}
	return out
}

// ifaceOf returns the interface type behind the static type of v (nil if v is not of interface type).
func ifaceOf(v ssa.Value) *types.Interface {
	it, _ := v.Type().Underlying().(*types.Interface)
	return it
}

// stringConstOf looks a string constant of a workspace package up by name.
func (p *Program) stringConstOf(pkgPath, name string) (string, bool) {
	pk := p.ByPath[pkgPath]
	if pk == nil || pk.Types == nil {
		return "", false
	}
	c, ok := pk.Types.Scope().Lookup(name).(*types.Const)
	if !ok || c.Val().Kind() != constant.String {
		return "", false
	}
	return constant.StringVal(c.Val()), true
}

// errResultOf returns the call behind an error-typed value (the call itself when it returns only an
// error, or the Extract of its error result), nil otherwise.
func errResultOf(v ssa.Value) *ssa.Call {
	v = stripConv(v)
	if v == nil || v.Type().String() != "error" {
		return nil
	}
	c, _ := asCall(v)
	return c
}

// staticCalleesWithin returns fn and the workspace functions statically reachable from it within depth.
func staticCalleesWithin(fn *ssa.Function, depth int) []*ssa.Function {
	seen := map[*ssa.Function]bool{fn: true}
	out := []*ssa.Function{fn}
	frontier := []*ssa.Function{fn}
	for d := 0; d < depth; d++ {
		var next []*ssa.Function
		for _, f := range frontier {
			for _, c := range callsIn(f) {
				if callee := staticCallee(c.Common); callee != nil && callee.Blocks != nil && !seen[callee] {
					seen[callee] = true
					out = append(out, callee)
					next = append(next, callee)
				}
			}
		}
		frontier = next
	}
	return out
}
