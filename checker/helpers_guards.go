package main

import (
	"go/constant"
	"go/token"
	"go/types"
	"strings"

	"golang.org/x/tools/go/ssa"
)

// Generic guard helpers added for C01/C02 (usable by any rule file).

// ---------------------------------------------------------------------------------------------
// Order relations between two values, derived from guard facts.

type ordRel uint8

const (
	relLT ordRel = 1 << iota
	relEQ
	relGT
	relAny = relLT | relEQ | relGT
)

func (r ordRel) String() string {
	switch r {
	case 0:
		return "contradiction"
	case relLT:
		return "<"
	case relEQ:
		return "=="
	case relGT:
		return ">"
	case relLT | relEQ:
		return "<="
	case relGT | relEQ:
		return ">="
	case relLT | relGT:
		return "!="
	}
	return "unconstrained"
}

// subsetOf: every relation still possible in r is allowed by allowed.
func (r ordRel) subsetOf(allowed ordRel) bool { return r&^allowed == 0 }

func opRel(op token.Token) (ordRel, bool) {
	switch op {
	case token.LSS:
		return relLT, true
	case token.LEQ:
		return relLT | relEQ, true
	case token.GTR:
		return relGT, true
	case token.GEQ:
		return relGT | relEQ, true
	case token.EQL:
		return relEQ, true
	case token.NEQ:
		return relLT | relGT, true
	}
	return 0, false
}

func flipRel(r ordRel) ordRel {
	out := r & relEQ
	if r&relLT != 0 {
		out |= relGT
	}
	if r&relGT != 0 {
		out |= relLT
	}
	return out
}

// relFromFacts returns what the facts establish about `a ? b` for values selected by the two
// matchers: the intersection of all comparisons (either operand order, either polarity, any of
// < <= > >= == !=) between a value matching a and a value matching b.
func (p *Program) relFromFacts(fs []Fact, a, b func(ssa.Value) bool) ordRel {
	r := relAny
	for _, f := range fs {
		bin, ok := f.Cond.(*ssa.BinOp)
		if !ok {
			continue
		}
		or, ok := opRel(bin.Op)
		if !ok {
			continue
		}
		var cur ordRel
		switch {
		case a(bin.X) && b(bin.Y):
			cur = or
		case a(bin.Y) && b(bin.X):
			cur = flipRel(or)
		default:
			continue
		}
		if !f.Pol {
			cur = relAny &^ cur
		}
		r &= cur
	}
	return r
}

func matchConstInt(n int64) func(ssa.Value) bool {
	return func(v ssa.Value) bool {
		i, ok := constInt(stripConv(v))
		return ok && i == n
	}
}

// ---------------------------------------------------------------------------------------------
// Disjunctive guards: a predicate over fact sets that must hold on every path to a block, where
// different paths may establish it through different facts (`a || b`, two ifs jumping to one block,
// a phi assigned under one of several conditions).

// holdsOnAllPaths: pred holds for the must-facts of b, or — walking backwards over the CFG and
// accumulating the facts of the edges walked — for every predecessor path (bounded depth, cycles cut).
// A known boolean Phi is split per incoming edge while walking back through its block (`ok := a; if
// !ok { ok = b }; if ok {…}`): on the edge from predecessor i the fact is about Edges[i].
func (p *Program) holdsOnAllPaths(b *ssa.BasicBlock, pred func([]Fact) bool, depth int) bool {
	return p.holdsBack(b, nil, pred, depth, map[*ssa.BasicBlock]bool{})
}

// holdsOnEdgePaths: same, for control that flows from -> to.
func (p *Program) holdsOnEdgePaths(from, to *ssa.BasicBlock, pred func([]Fact) bool, depth int) bool {
	carried, feasible := p.carryOverEdge(nil, from, to)
	if !feasible {
		return true
	}
	return p.holdsBack(from, carried, pred, depth, map[*ssa.BasicBlock]bool{})
}

// carryOverEdge extends the facts known for the path suffix starting at `to` by what taking the edge
// from->to adds: the branch fact of the edge and, for every carried fact about a boolean Phi of
// block `to`, the same fact about the value flowing in over this edge. feasible=false when a
// constant edge value contradicts a carried fact (this path cannot be the one taken).
func (p *Program) carryOverEdge(carried []Fact, from, to *ssa.BasicBlock) (out []Fact, feasible bool) {
	out = append(append([]Fact{}, carried...), p.edgeFacts(from, to)...)
	idx := -1
	for i, pr := range to.Preds {
		if pr == from {
			idx = i
		}
	}
	if idx < 0 {
		return out, true
	}
	for _, f := range append(append([]Fact{}, carried...), p.FactsAt(to)...) {
		ph, ok := f.Cond.(*ssa.Phi)
		if !ok || ph.Block() != to || idx >= len(ph.Edges) {
			continue
		}
		e := ph.Edges[idx]
		if bv, isConst := constBool(e); isConst {
			if bv != f.Pol {
				return out, false
			}
			continue
		}
		out = append(out, p.mkFact(e, f.Pol))
	}
	// a path on which the same condition is both true and false is not a path
	seen := map[string]bool{}
	for _, f := range append(append([]Fact{}, out...), p.FactsAt(from)...) {
		seen[f.key] = true
	}
	for k := range seen {
		if strings.HasPrefix(k, "T:") && seen["F:"+k[2:]] {
			return out, false
		}
	}
	return out, true
}

func (p *Program) holdsBack(b *ssa.BasicBlock, carried []Fact, pred func([]Fact) bool, depth int, onPath map[*ssa.BasicBlock]bool) bool {
	fs := append(append([]Fact{}, p.FactsAt(b)...), carried...)
	if pred(fs) {
		return true
	}
	if depth <= 0 || len(b.Preds) == 0 || onPath[b] {
		return false
	}
	onPath[b] = true
	defer delete(onPath, b)
	for _, pr := range b.Preds {
		// facts known at b hold on every path into b, so they are carried along the walk
		e, feasible := p.carryOverEdge(fs, pr, b)
		if !feasible {
			continue
		}
		if !p.holdsBack(pr, e, pred, depth-1, onPath) {
			return false
		}
	}
	return true
}

// holdsForReturn evaluates a disjunctive guard for a return case (which may have been split on an
// incoming edge of the return block).
func (p *Program) holdsForReturn(rc ReturnCase, pred func([]Fact) bool, depth int) bool {
	if rc.Pred != nil {
		return p.holdsOnEdgePaths(rc.Pred, rc.Ret.Block(), pred, depth)
	}
	return p.holdsOnAllPaths(rc.Ret.Block(), pred, depth)
}

// ---------------------------------------------------------------------------------------------
// Interface implementations inside the workspace

// implementationsOf returns the source methods named `method` of every non-generic named type
// (T or *T) declared in a product package of the workspace that implements iface.
func (p *Program) implementationsOf(iface *types.Interface, method string) []*ssa.Function {
	var out []*ssa.Function
	seen := map[*ssa.Function]bool{}
	for _, pk := range p.Pkgs {
		if isNonProductPkg(pk.PkgPath) || pk.Types == nil {
			continue
		}
		sc := pk.Types.Scope()
		for _, name := range sc.Names() {
			tn, ok := sc.Lookup(name).(*types.TypeName)
			if !ok || tn.IsAlias() {
				continue
			}
			named, ok := tn.Type().(*types.Named)
			if !ok || named.TypeParams().Len() > 0 {
				continue
			}
			if _, isIface := named.Underlying().(*types.Interface); isIface {
				continue
			}
			for _, t := range []types.Type{named, types.NewPointer(named)} {
				if !types.Implements(t, iface) {
					continue
				}
				sel := p.SSA.MethodSets.MethodSet(t).Lookup(pk.Types, method)
				if sel == nil {
					continue
				}
				fn := p.SSA.MethodValue(sel)
				if fn == nil || fn.Blocks == nil || fn.Synthetic != "" || seen[fn] {
					continue
				}
				seen[fn] = true
				out = append(out, fn)
				break
			}
		}
	}
	return out
}

// ifaceOf returns the interface type behind the static type of v (nil if v is not of interface type).
func ifaceOf(v ssa.Value) *types.Interface {
	it, _ := v.Type().Underlying().(*types.Interface)
	return it
}

// stringConstOf looks a string constant of a workspace package up by name.
func (p *Program) stringConstOf(pkgPath, name string) (string, bool) {
	pk := p.ByPath[pkgPath]
	if pk == nil || pk.Types == nil {
		return "", false
	}
	c, ok := pk.Types.Scope().Lookup(name).(*types.Const)
	if !ok || c.Val().Kind() != constant.String {
		return "", false
	}
	return constant.StringVal(c.Val()), true
}

// errResultOf returns the call behind an error-typed value (the call itself when it returns only an
// error, or the Extract of its error result), nil otherwise.
func errResultOf(v ssa.Value) *ssa.Call {
	v = stripConv(v)
	if v == nil || v.Type().String() != "error" {
		return nil
	}
	c, _ := asCall(v)
	return c
}

// staticCalleesWithin returns fn and the workspace functions statically reachable from it within depth.
func staticCalleesWithin(fn *ssa.Function, depth int) []*ssa.Function {
	seen := map[*ssa.Function]bool{fn: true}
	out := []*ssa.Function{fn}
	frontier := []*ssa.Function{fn}
	for d := 0; d < depth; d++ {
		var next []*ssa.Function
		for _, f := range frontier {
			for _, c := range callsIn(f) {
				if callee := staticCallee(c.Common); callee != nil && callee.Blocks != nil && !seen[callee] {
					seen[callee] = true
					out = append(out, callee)
					next = append(next, callee)
				}
			}
		}
		frontier = next
	}
	return out
}

// ---------------------------------------------------------------------------------------------
// Bottom-tested ("rotated") counting loops.
//
// go/ssa compiles `for i := range n` (n an integer) with the loop condition at the END of the
// iteration and a copy of it in front of the loop:
//
//	pre:   if 0 < n goto body else done          (guard: is there a first iteration?)
//	body:  i = phi [pre: 0, latch: i+1] … jump latch
//	latch: i' = i + 1; if i' < n goto body else done
//	done:  …
//
// The natural-loop head is `body`; the condition-false exit that a top-tested loop takes from its
// head (`for i := 0; i < n; i++`) is here the pair of edges pre→done (no iteration) and latch→done
// (the induction variable ran out). A hand-written `i := 0; for { …; i++; if i >= n { break } }` has
// the same latch without the guard. Rules that tell "left the loop early" from "the loop ran to its
// end" by "control passed the head again" must treat those edges like the head's exit edge.

// loopRotation describes the bottom test of a counting loop.
type loopRotation struct {
	Latch  *ssa.BasicBlock   // the single back-edge source; its If decides between the next iteration and Exit
	Exit   *ssa.BasicBlock   // entered when the loop condition is false
	Guards []*ssa.BasicBlock // blocks in front of the loop that test the same condition for the first iteration (→ Head / Exit)
	IV     *ssa.Phi          // the induction variable (phi of the head) whose next value the latch tests
}

// rotatedLoop recognises the shape above, nil otherwise. Required: one back edge; its source ends in
// an If between the head and a block outside the loop; the condition compares the value the
// induction phi takes over that back edge (phi ± constant) with a value that does not change in the
// loop. A block in front of the loop counts as guard only when it tests the very same comparison
// with the phi's initial value in place of the next one and branches to the same two blocks.
func rotatedLoop(loop *Loop) *loopRotation {
	if loop == nil || len(loop.Tails) != 1 {
		return nil
	}
	t := loop.Tails[0]
	if len(t.Instrs) == 0 || len(t.Succs) != 2 {
		return nil
	}
	iff, ok := t.Instrs[len(t.Instrs)-1].(*ssa.If)
	if !ok {
		return nil
	}
	var exit *ssa.BasicBlock
	headIdx := 0
	switch {
	case t.Succs[0] == loop.Head && !loop.Body[t.Succs[1]]:
		exit = t.Succs[1]
	case t.Succs[1] == loop.Head && !loop.Body[t.Succs[0]]:
		exit, headIdx = t.Succs[0], 1
	default:
		return nil
	}
	cond, ok := iff.Cond.(*ssa.BinOp)
	if !ok {
		return nil
	}
	switch cond.Op {
	case token.LSS, token.LEQ, token.GTR, token.GEQ, token.NEQ, token.EQL:
	default:
		return nil
	}
	predIdx := func(b, pred *ssa.BasicBlock) int {
		for i, x := range b.Preds {
			if x == pred {
				return i
			}
		}
		return -1
	}
	ti := predIdx(loop.Head, t)
	if ti < 0 {
		return nil
	}
	invariant := func(v ssa.Value) bool {
		in, isInstr := v.(ssa.Instruction)
		return !isInstr || in.Block() == nil || !loop.Body[in.Block()]
	}
	sameOperand := func(a, b ssa.Value) bool {
		if a == b {
			return true
		}
		ca, okA := a.(*ssa.Const)
		cb, okB := b.(*ssa.Const)
		return okA && okB && ca.Value != nil && cb.Value != nil && types.Identical(ca.Type(), cb.Type()) && constant.Compare(ca.Value, token.EQL, cb.Value)
	}
	for _, in := range loop.Head.Instrs {
		iv, isPhi := in.(*ssa.Phi)
		if !isPhi {
			break
		}
		if ti >= len(iv.Edges) {
			continue
		}
		next := iv.Edges[ti]
		nb, isBin := next.(*ssa.BinOp)
		if !isBin || (nb.Op != token.ADD && nb.Op != token.SUB) {
			continue
		}
		if base, off, ok := pfAddConst(next); !ok || base != ssa.Value(iv) || off == 0 {
			continue
		}
		nextOnLeft := false
		var bound ssa.Value
		switch {
		case cond.X == next && invariant(cond.Y):
			nextOnLeft, bound = true, cond.Y
		case cond.Y == next && invariant(cond.X):
			bound = cond.X
		default:
			continue
		}
		rot := &loopRotation{Latch: t, Exit: exit, IV: iv}
		for i, pre := range loop.Head.Preds {
			if loop.Body[pre] || len(pre.Succs) != 2 || pre.Succs[headIdx] != loop.Head || pre.Succs[1-headIdx] != exit {
				continue
			}
			pif, ok := pre.Instrs[len(pre.Instrs)-1].(*ssa.If)
			if !ok {
				continue
			}
			pc, ok := pif.Cond.(*ssa.BinOp)
			if !ok || pc.Op != cond.Op || i >= len(iv.Edges) {
				continue
			}
			init, other := pc.Y, pc.X
			if nextOnLeft {
				init, other = pc.X, pc.Y
			}
			if sameOperand(init, iv.Edges[i]) && sameOperand(other, bound) {
				rot.Guards = append(rot.Guards, pre)
			}
		}
		return rot
	}
	return nil
}

// iterRegionOf: the blocks that may execute after `from` within the same iteration of loop — like
// pfIterRegion, and for a bottom-tested loop the condition-false exit of the latch is not followed
// either (what runs behind it runs after the loop, as behind the head's exit of a top-tested loop).
// Blocks behind a `break`/`return` are included.
func iterRegionOf(from ssa.Instruction, loop *Loop) map[*ssa.BasicBlock]bool {
	rot := rotatedLoop(loop)
	region := map[*ssa.BasicBlock]bool{from.Block(): true}
	work := []*ssa.BasicBlock{from.Block()}
	for len(work) > 0 {
		b := work[len(work)-1]
		work = work[:len(work)-1]
		for _, s := range b.Succs {
			if s == loop.Head || region[s] || (rot != nil && b == rot.Latch && s == rot.Exit) {
				continue
			}
			region[s] = true
			work = append(work, s)
		}
	}
	return region
}

// loopTailsAfter: pfLoopTailsAfter over iterRegionOf.
func loopTailsAfter(from ssa.Instruction, loop *Loop) []*ssa.BasicBlock {
	region := iterRegionOf(from, loop)
	var out []*ssa.BasicBlock
	for _, t := range loop.Tails {
		if region[t] {
			out = append(out, t)
		}
	}
	return out
}

// behindLoop: block b is entered only by way of the loop's condition — dominated by the head (top-
// tested loop; callers exclude the iteration's own blocks with iterRegionOf), or dominated by the
// exit block of a bottom-tested loop that nothing but the latch, the guards in front of the loop and
// blocks of the loop body (a `break`, which iterRegionOf reports) can enter.
func behindLoop(loop *Loop, b *ssa.BasicBlock) bool {
	if loop.Head.Dominates(b) {
		return true
	}
	rot := rotatedLoop(loop)
	if rot == nil || !rot.Exit.Dominates(b) {
		return false
	}
	for _, pred := range rot.Exit.Preds {
		if pred == rot.Latch || loop.Body[pred] {
			continue
		}
		isGuard := false
		for _, g := range rot.Guards {
			if g == pred {
				isGuard = true
			}
		}
		if !isGuard {
			return false
		}
	}
	return true
}

// carriedAtExit resolves a value read behind the loop to the head phi it is the final value of: the
// head phi itself, or — bottom-tested loop — a phi of the exit block that merges exactly what the
// head phi would have merged had the head been entered once more (the latch's back-edge value over
// the latch's exit edge, the initial value over each guard's exit edge). A value that also arrives
// over a `break` edge is not resolved.
func carriedAtExit(v ssa.Value, loop *Loop) *ssa.Phi {
	ph, ok := v.(*ssa.Phi)
	if !ok {
		return nil
	}
	if ph.Block() == loop.Head {
		return ph
	}
	rot := rotatedLoop(loop)
	if rot == nil || ph.Block() != rot.Exit {
		return nil
	}
	headIdx := map[*ssa.BasicBlock]int{}
	for i, pred := range loop.Head.Preds {
		headIdx[pred] = i
	}
	isGuard := map[*ssa.BasicBlock]bool{}
	for _, g := range rot.Guards {
		isGuard[g] = true
	}
	for _, in := range loop.Head.Instrs {
		hp, isPhi := in.(*ssa.Phi)
		if !isPhi {
			break
		}
		match := true
		for i, pred := range rot.Exit.Preds {
			hi, fromHeadPred := headIdx[pred]
			if !fromHeadPred || (pred != rot.Latch && !isGuard[pred]) || i >= len(ph.Edges) || hi >= len(hp.Edges) {
				match = false
				break
			}
			a, b := ph.Edges[i], hp.Edges[hi]
			if a == b {
				continue
			}
			ca, okA := a.(*ssa.Const)
			cb, okB := b.(*ssa.Const)
			if !(okA && okB && ca.Value != nil && cb.Value != nil && types.Identical(ca.Type(), cb.Type()) && constant.Compare(ca.Value, token.EQL, cb.Value)) {
				match = false
				break
			}
		}
		if match {
			return hp
		}
	}
	return nil
}

// rotExitEdge: pred → rot.Exit is one of the loop-condition-false edges (from the latch or a guard).
func rotExitEdge(rot *loopRotation, pred *ssa.BasicBlock) bool {
	if pred == rot.Latch {
		return true
	}
	for _, g := range rot.Guards {
		if g == pred {
			return true
		}
	}
	return false
}
