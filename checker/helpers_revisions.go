package main

import (
	"go/token"
	"go/types"
	"sort"
	"strings"

	"golang.org/x/tools/go/ssa"
)

// Helpers shared by the ObjectDeployment / revision rules (C07, C08): range-loop recognition,
// "site reached only after the whole list was tested", joint expansion of phis into per-edge cases,
// sort-order recognition, small comparison normalisers.

const (
	tObjectSetAccessor        = pkgAdapters + ".ObjectSetAccessor"
	tObjectDeploymentAccessor = pkgAdapters + ".ObjectDeploymentAccessor"
)

func rvIsObjectSetAccessor(t types.Type) bool {
	if _, isPtr := t.(*types.Pointer); isPtr {
		return false
	}
	return namedTypeString(t) == tObjectSetAccessor
}

func rvIsDeploymentAccessor(t types.Type) bool {
	if _, isPtr := t.(*types.Pointer); isPtr {
		return false
	}
	return namedTypeString(t) == tObjectDeploymentAccessor
}

func rvIsAccessorSlice(t types.Type) bool {
	sl, ok := t.Underlying().(*types.Slice)
	return ok && rvIsObjectSetAccessor(sl.Elem())
}

// rvIsSubReconcilerSig: (ctx, ObjectSetAccessor, []ObjectSetAccessor, ObjectDeploymentAccessor) (_, error).
func rvIsSubReconcilerSig(sig *types.Signature) bool {
	if sig == nil || sig.Params().Len() != 4 || sig.Results().Len() != 2 || sig.Results().At(1).Type().String() != "error" {
		return false
	}
	ps := sig.Params()
	return rvIsObjectSetAccessor(ps.At(1).Type()) && rvIsAccessorSlice(ps.At(2).Type()) && rvIsDeploymentAccessor(ps.At(3).Type())
}

func rvCallSig(cc *ssa.CallCommon) *types.Signature {
	if cc.IsInvoke() {
		s, _ := cc.Method.Type().(*types.Signature)
		return s
	}
	if f := staticCallee(cc); f != nil {
		return f.Signature
	}
	return nil
}

// rvSubReconcilerCalls lists the call sites (invoke or static) of functions with the
// sub-reconciler signature in the given functions. A static call of an extracted helper that merely
// has the same parameter list (e.g. the loop over the sub-reconcilers moved into its own method) is
// not an invocation: the invocation inside the helper is, and it is judged through the helper's
// call sites.
func rvSubReconcilerCalls(p *Program, fns []*ssa.Function) []Call {
	var out []Call
	for _, fn := range fns {
		for _, c := range callsIn(fn) {
			if rvIsSubReconcilerSig(rvCallSig(c.Common)) && len(callArgs(c.Common)) == 4 {
				if h := staticCallee(c.Common); h != nil && p.inlinable(h) {
					continue
				}
				out = append(out, c)
			}
		}
	}
	return out
}

// rvParamRoot follows parameters of extracted helpers (one call site) to the argument passed, as far
// up as possible; other values are returned unchanged (conversions stripped).
func (p *Program) rvParamRoot(v ssa.Value) ssa.Value {
	v = stripConv(v)
	for i := 0; i < 8; i++ {
		prm, ok := v.(*ssa.Parameter)
		if !ok {
			break
		}
		arg := p.soleArgument(prm)
		if arg == nil {
			break
		}
		v = stripConv(arg)
	}
	return v
}

// rvValuesX: the values that may flow into v, looking through phis, spilled locals, results of
// extracted helpers and — for a parameter of an extracted helper with one call site — the argument
// passed there. Values are reported in the function where they are produced.
func (p *Program) rvValuesX(v ssa.Value) []ssa.Value {
	var out []ssa.Value
	seen := map[ssa.Value]bool{}
	var walk func(v ssa.Value, d int)
	walk = func(v ssa.Value, d int) {
		for _, pv := range p.possibleValuesX(v) {
			if seen[pv] {
				continue
			}
			seen[pv] = true
			if prm, ok := stripConv(pv).(*ssa.Parameter); ok && d < 6 {
				if arg := p.soleArgument(prm); arg != nil {
					walk(arg, d+1)
					continue
				}
			}
			out = append(out, pv)
		}
	}
	walk(v, 0)
	return out
}

// rvMethodOn: v is (the result of) a call of method `name`; returns the receiver.
func rvMethodOn(v ssa.Value, name string) (recv ssa.Value, call *ssa.Call, ok bool) {
	c, idx := asCall(v)
	if c == nil || idx > 0 {
		return nil, nil, false
	}
	if calleeName(c.Common()) != name {
		return nil, nil, false
	}
	r := callRecv(c.Common())
	if r == nil {
		return nil, nil, false
	}
	return r, c, true
}

// rvParamOfType returns the unique parameter of fn satisfying pred (nil if none or ambiguous).
func rvParamOfType(fn *ssa.Function, pred func(types.Type) bool) *ssa.Parameter {
	var found *ssa.Parameter
	for _, prm := range fn.Params {
		if pred(prm.Type()) {
			if found != nil {
				return nil
			}
			found = prm
		}
	}
	return found
}

// rvObjectSetWriterAcc: the object written is X.ClientObject() with X an ObjectSetAccessor.
func rvObjectSetWriterAcc(ws WriterSite) (ssa.Value, bool) {
	recv, _, ok := rvMethodOn(ws.Obj, "ClientObject")
	if !ok || !rvIsObjectSetAccessor(stripConv(recv).Type()) {
		return nil, false
	}
	return recv, true
}

func rvBlockReaches(from, to *ssa.BasicBlock) bool {
	seen := map[*ssa.BasicBlock]bool{}
	work := []*ssa.BasicBlock{from}
	for len(work) > 0 {
		b := work[len(work)-1]
		work = work[:len(work)-1]
		if seen[b] {
			continue
		}
		seen[b] = true
		if b == to {
			return true
		}
		work = append(work, b.Succs...)
	}
	return false
}

// rvReachesOnEdge: block `to` is reachable from block `from` entered through the edge pred -> from,
// not counting paths that contradict themselves: a boolean phi takes the constant of the edge its
// block was entered through, and a later branch on that phi (or its negation) follows only the
// matching successor. This is the shape of a loop whose verdict travels through a variable
// (`ok := true; for … { if bad { ok = false; break } }; if !ok { return }`, or a boolean helper whose
// body was merged into the caller): the early exit and the exhaustion edge meet in one block, and
// only the test of the merged boolean separates them again.
func rvReachesOnEdge(pred, from, to *ssa.BasicBlock) bool {
	type state struct {
		pred, b *ssa.BasicBlock
		env     map[*ssa.Phi]bool
	}
	envKey := func(b *ssa.BasicBlock, env map[*ssa.Phi]bool) string {
		var ks []string
		for ph, v := range env {
			ks = append(ks, ph.Name()+"="+map[bool]string{true: "1", false: "0"}[v])
		}
		sort.Strings(ks)
		return itoa(b.Index) + "|" + strings.Join(ks, ",")
	}
	seen := map[string]bool{}
	work := []state{{pred, from, map[*ssa.Phi]bool{}}}
	for len(work) > 0 {
		st := work[len(work)-1]
		work = work[:len(work)-1]
		env := map[*ssa.Phi]bool{}
		for k, v := range st.env {
			env[k] = v
		}
		// phis of the entered block take the value of the entering edge
		if st.pred != nil {
			pi := -1
			for i, pr := range st.b.Preds {
				if pr == st.pred {
					pi = i
				}
			}
			for _, in := range st.b.Instrs {
				ph, isPhi := in.(*ssa.Phi)
				if !isPhi {
					break
				}
				delete(env, ph)
				if pi >= 0 && pi < len(ph.Edges) {
					e := ph.Edges[pi]
					if cb, isC := constBool(e); isC {
						env[ph] = cb
					} else if src, isPh := e.(*ssa.Phi); isPh {
						if v, known := st.env[src]; known {
							env[ph] = v
						}
					}
				}
			}
		}
		k := envKey(st.b, env)
		if seen[k] {
			continue
		}
		seen[k] = true
		if st.b == to {
			return true
		}
		succs := st.b.Succs
		if len(st.b.Instrs) > 0 {
			if iff, isIf := st.b.Instrs[len(st.b.Instrs)-1].(*ssa.If); isIf && len(succs) == 2 {
				cond, pol := iff.Cond, true
				for {
					if u, isU := cond.(*ssa.UnOp); isU && u.Op == token.NOT {
						cond, pol = u.X, !pol
						continue
					}
					break
				}
				if ph, isPhi := cond.(*ssa.Phi); isPhi {
					if v, known := env[ph]; known {
						if v == pol {
							succs = succs[:1]
						} else {
							succs = succs[1:]
						}
					}
				}
			}
		}
		for _, nx := range succs {
			work = append(work, state{st.b, nx, env})
		}
	}
	return false
}

// ---------------------------------------------------------------------------------------------
// Range loops

// rvLoop is a loop that visits S[0], S[1], … S[len(S)-1] in this order: `for … := range S` or
// `for i := 0; i < len(S); i++`.
type rvLoop struct {
	L     *Loop
	Slice ssa.Value
	Idx   ssa.Value // the index of the current element, valid inside the body
	Exit  *ssa.BasicBlock
}

func rvLenArg(v ssa.Value) ssa.Value {
	if c, ok := v.(*ssa.Call); ok {
		if bi, okb := c.Call.Value.(*ssa.Builtin); okb && bi.Name() == "len" && len(c.Call.Args) == 1 {
			return c.Call.Args[0]
		}
	}
	return nil
}

func rvRangeLoops(p *Program, fn *ssa.Function) []*rvLoop {
	var out []*rvLoop
	for _, l := range loopsOf(fn) {
		h := l.Head
		if len(h.Instrs) == 0 {
			continue
		}
		iff, ok := h.Instrs[len(h.Instrs)-1].(*ssa.If)
		if !ok {
			continue
		}
		b, ok := iff.Cond.(*ssa.BinOp)
		if !ok {
			continue
		}
		iv, n := b.X, b.Y
		switch b.Op {
		case token.LSS:
		case token.GTR:
			iv, n = n, iv
		default:
			continue
		}
		s := rvLenArg(n)
		if s == nil {
			continue
		}
		if !l.Body[h.Succs[0]] || l.Body[h.Succs[1]] {
			continue
		}
		okShape := false
		// (a) rangeindex: iv = phi + 1, phi = [-1 from outside, iv from inside]
		if add, isAdd := iv.(*ssa.BinOp); isAdd && add.Op == token.ADD {
			if ph, isPhi := add.X.(*ssa.Phi); isPhi && ph.Block() == h {
				if one, isOne := constInt(add.Y); isOne && one == 1 {
					good := true
					for i, e := range ph.Edges {
						if l.Body[h.Preds[i]] {
							if e != ssa.Value(add) {
								good = false
							}
						} else if c, isC := constInt(e); !isC || c != -1 {
							good = false
						}
					}
					okShape = good
				}
			}
		}
		// (b) classic: iv = phi, phi = [0 from outside, iv+1 from inside]
		if ph, isPhi := iv.(*ssa.Phi); !okShape && isPhi && ph.Block() == h {
			good := true
			for i, e := range ph.Edges {
				if l.Body[h.Preds[i]] {
					add, isAdd := e.(*ssa.BinOp)
					if !isAdd || add.Op != token.ADD || add.X != ssa.Value(ph) {
						good = false
						continue
					}
					if one, isOne := constInt(add.Y); !isOne || one != 1 {
						good = false
					}
				} else if c, isC := constInt(e); !isC || c != 0 {
					good = false
				}
			}
			okShape = good
		}
		if !okShape {
			continue
		}
		out = append(out, &rvLoop{L: l, Slice: s, Idx: iv, Exit: h.Succs[1]})
	}
	return out
}

// onlyByExhaustion: `site` lies after the loop and every path to it leaves the loop through the
// header's "no more elements" edge (no break/goto out of the body reaches it).
func (l *rvLoop) onlyByExhaustion(site ssa.Instruction) (bool, string) {
	sb := site.Block()
	if l.L.Body[sb] {
		return false, "site is inside the loop"
	}
	if !l.L.Head.Dominates(sb) {
		return false, "loop does not dominate the site"
	}
	for b := range l.L.Body {
		for _, s := range b.Succs {
			if l.L.Body[s] || (b == l.L.Head && s == l.Exit) {
				continue
			}
			if rvReachesOnEdge(b, s, sb) {
				return false, "site is reachable through an early exit of the loop (block " + itoa(b.Index) + ")"
			}
		}
	}
	return true, ""
}

// isElem: v is the element S[Idx] of the current iteration.
func (l *rvLoop) isElem(p *Program, v ssa.Value) bool {
	ia := rvElemAddr(v)
	return ia != nil && ia.Index == l.Idx && p.sameValue(ia.X, l.Slice)
}

// everyIterationGuard finds a test executed in every iteration whose "bad" outcome leaves the loop
// towards neither the header nor the site. classify gets the If condition and its block and
// returns whether the condition being true is the bad outcome.
func (l *rvLoop) everyIterationGuard(site ssa.Instruction, classify func(cond ssa.Value, b *ssa.BasicBlock) (badOnTrue bool, ok bool)) (*ssa.BasicBlock, string) {
	why := "no per-element test found in the loop body"
	for _, b := range l.L.Head.Parent().Blocks {
		if !l.L.Body[b] || len(b.Instrs) == 0 {
			continue
		}
		iff, ok := b.Instrs[len(b.Instrs)-1].(*ssa.If)
		if !ok {
			continue
		}
		cond := iff.Cond
		pol := true
		for {
			if u, isU := cond.(*ssa.UnOp); isU && u.Op == token.NOT {
				cond = u.X
				pol = !pol
				continue
			}
			break
		}
		badOnTrue, ok := classify(cond, b)
		if !ok {
			continue
		}
		if !pol {
			badOnTrue = !badOnTrue
		}
		bad := b.Succs[1]
		if badOnTrue {
			bad = b.Succs[0]
		}
		if rvReachesOnEdge(b, bad, l.L.Head) {
			why = "the failing outcome of the per-element test continues the loop"
			continue
		}
		if rvReachesOnEdge(b, bad, site.Block()) {
			why = "the failing outcome of the per-element test still reaches the site"
			continue
		}
		dominatesAll := true
		for _, t := range l.L.Tails {
			if !b.Dominates(t) {
				dominatesAll = false
			}
		}
		if !dominatesAll {
			why = "the per-element test is skipped for some elements (a path back to the loop header bypasses it)"
			continue
		}
		return b, ""
	}
	return nil, why
}

// rvElemAddr: v is a load of &S[i]; returns the IndexAddr.
func rvElemAddr(v ssa.Value) *ssa.IndexAddr {
	v = stripConv(v)
	u, ok := v.(*ssa.UnOp)
	if !ok || u.Op != token.MUL {
		return nil
	}
	ia, _ := u.X.(*ssa.IndexAddr)
	return ia
}

// rvDerivedElem walks back through loads, field selections and whole-value local copies to the
// slice element a value was read from (`prev := S[i]; key.Name = prev.Name`).
func rvDerivedElem(v ssa.Value) *ssa.IndexAddr {
	for i := 0; i < 12 && v != nil; i++ {
		v = stripConv(v)
		switch x := v.(type) {
		case *ssa.UnOp:
			if x.Op != token.MUL {
				return nil
			}
			v = x.X
		case *ssa.FieldAddr:
			v = x.X
		case *ssa.Field:
			v = x.X
		case *ssa.IndexAddr:
			return x
		case *ssa.Alloc:
			var whole []*ssa.Store
			for _, r := range referrersOf(x) {
				if st, ok := r.(*ssa.Store); ok && st.Addr == ssa.Value(x) {
					whole = append(whole, st)
				}
			}
			if len(whole) != 1 {
				return nil
			}
			v = whole[0].Val
		default:
			return nil
		}
	}
	return nil
}

// ---------------------------------------------------------------------------------------------
// Comparisons

// rvZeroTest decomposes `x == 0`, `x != 0`, `x <= 0`, `x < 1`, `x > 0`, `x >= 1` (either operand order).
func rvZeroTest(cond ssa.Value) (x ssa.Value, trueMeansZero bool, ok bool) {
	b, isBin := cond.(*ssa.BinOp)
	if !isBin {
		return nil, false, false
	}
	l, r, op := b.X, b.Y, b.Op
	if _, isC := constInt(l); isC {
		l, r = r, l
		switch op {
		case token.LSS:
			op = token.GTR
		case token.GTR:
			op = token.LSS
		case token.LEQ:
			op = token.GEQ
		case token.GEQ:
			op = token.LEQ
		}
	}
	n, isC := constInt(r)
	if !isC {
		return nil, false, false
	}
	switch {
	case op == token.EQL && n == 0, op == token.LEQ && n == 0, op == token.LSS && n == 1:
		return l, true, true
	case op == token.NEQ && n == 0, op == token.GTR && n == 0, op == token.GEQ && n == 1:
		return l, false, true
	}
	return nil, false, false
}

// rvSearchNotFound: the fact says that a standard-library search over a slice examined every element
// and accepted none: `slices.ContainsFunc(S, pred)` known false, or the result i of
// `slices.IndexFunc(S, pred)` known negative (`i < 0`, `i == -1`, `!(i >= 0)` … against a constant;
// IndexFunc answers -1 or a valid index). Both functions are, by their definition in the standard
// library, `for i := range S { if pred(S[i]) { return true / i } }; return false / -1`: the predicate
// is the loop body, its parameter the current element, a true answer the early exit.
func rvSearchNotFound(f Fact) (slice ssa.Value, pred *ssa.Function, ok bool) {
	cond := stripConv(f.Cond)
	if call, idx := asCall(cond); call != nil && idx == -1 {
		sl, pr, index, isSearch := pfSearchCall(call)
		if isSearch && !index && !f.Pol {
			return sl, pr, true
		}
		return nil, nil, false
	}
	b, isBin := cond.(*ssa.BinOp)
	if !isBin {
		return nil, nil, false
	}
	l, r, op := b.X, b.Y, b.Op
	if _, isC := constInt(l); isC {
		l, r = r, l
		switch op {
		case token.LSS:
			op = token.GTR
		case token.GTR:
			op = token.LSS
		case token.LEQ:
			op = token.GEQ
		case token.GEQ:
			op = token.LEQ
		}
	}
	k, isC := constInt(r)
	if !isC {
		return nil, nil, false
	}
	if !f.Pol {
		switch op {
		case token.LSS:
			op = token.GEQ
		case token.GEQ:
			op = token.LSS
		case token.GTR:
			op = token.LEQ
		case token.LEQ:
			op = token.GTR
		case token.EQL:
			op = token.NEQ
		case token.NEQ:
			op = token.EQL
		default:
			return nil, nil, false
		}
	}
	negative := false
	switch op {
	case token.LSS:
		negative = k <= 0
	case token.LEQ:
		negative = k <= -1
	case token.EQL:
		negative = k <= -1
	}
	if !negative {
		return nil, nil, false
	}
	call, idx := asCall(l)
	if call == nil || idx != -1 {
		return nil, nil, false
	}
	sl, pr, index, isSearch := pfSearchCall(call)
	if !isSearch || !index {
		return nil, nil, false
	}
	return sl, pr, true
}

// rvPredRejectsOnly: every way the one-parameter predicate can answer false establishes
// `holds` about its parameter: a constant false is returned under a guard fact that does, a computed
// answer is itself (the negation of) such a test. Returns of the constant true are the search's
// early exit and irrelevant here.
func (p *Program) rvPredRejectsOnly(pred *ssa.Function, holds func(f Fact, elem ssa.Value) bool) (bool, string) {
	if pred == nil || len(pred.Params) != 1 || pred.Blocks == nil {
		return false, "predicate has no body"
	}
	elem := ssa.Value(pred.Params[0])
	n := 0
	for _, rc := range p.returnCases(pred) {
		if pred.Recover != nil && rc.Ret.Block() == pred.Recover {
			continue
		}
		if len(rc.Results) != 1 || rc.Results[0] == nil {
			return false, "predicate result not resolvable"
		}
		r := rc.Results[0]
		facts := rc.Facts
		if cb, isC := constBool(r); isC {
			if cb {
				continue
			}
		} else {
			facts = append(append([]Fact{}, facts...), p.mkFact(r, false))
		}
		n++
		good := false
		for _, f := range facts {
			if holds(f, elem) {
				good = true
				break
			}
		}
		if !good {
			return false, "the predicate can reject an element without the test (return at " + p.IPos(rc.Ret) + ")"
		}
	}
	if n == 0 {
		return false, "the predicate never answers false"
	}
	return true, ""
}

// rvRel is an ordering fact "A op B" (op is < or <=) derived from a guard fact.
type rvRel struct {
	A, B   ssa.Value
	Strict bool
}

// rvRelOf turns a fact over an ordered comparison into the relation it establishes
// (T: a<b ⇒ a<b; F: a<b ⇒ b<=a; …). ok=false for non-ordering conditions.
func rvRelOf(f Fact) (rvRel, bool) {
	b, isBin := f.Cond.(*ssa.BinOp)
	if !isBin {
		return rvRel{}, false
	}
	a, c := b.X, b.Y
	var strict bool
	switch b.Op {
	case token.LSS:
		strict = true
	case token.LEQ:
		strict = false
	case token.GTR:
		a, c = c, a
		strict = true
	case token.GEQ:
		a, c = c, a
		strict = false
	default:
		return rvRel{}, false
	}
	if f.Pol {
		return rvRel{A: a, B: c, Strict: strict}, true
	}
	// !(a < c) ⇒ c <= a ; !(a <= c) ⇒ c < a
	return rvRel{A: c, B: a, Strict: !strict}, true
}

// ---------------------------------------------------------------------------------------------
// Joint case expansion of phis

type rvCase struct {
	Vals  []ssa.Value
	Facts []Fact
	subst map[ssa.Value]ssa.Value
	edge  map[*ssa.BasicBlock]int
}

// aliases returns v and the values it was replaced by during the expansion of this case (parameter →
// argument → helper result → phi edge …): facts of the case may speak about any of them.
func (c rvCase) aliases(v ssa.Value) []ssa.Value {
	v = stripConv(v)
	out := []ssa.Value{v}
	for i := 0; i < 12; i++ {
		s, has := c.subst[v]
		if !has || stripConv(s) == v {
			break
		}
		v = stripConv(s)
		out = append(out, v)
	}
	return out
}

// knownNil: the facts of the case establish that v (or what it stands for in this case) is nil.
func (p *Program) rvCaseKnownNil(c rvCase, v ssa.Value) bool {
	for _, a := range c.aliases(v) {
		if isNilConst(a) || p.nilnessFromFacts(c.Facts, a) == yesTri {
			return true
		}
	}
	return false
}

func (p *Program) rvFactsContradict(fs []Fact, subst map[ssa.Value]ssa.Value) bool {
	seen := map[string]bool{}
	for _, f := range fs {
		k := p.key(f.Cond)
		if pol, ok := seen[k]; ok && pol != f.Pol {
			return true
		}
		seen[k] = f.Pol
		// nil tests on substituted phis
		if y, trueMeansNonNil, ok := errNilTest(f.Cond); ok {
			v := stripConv(y)
			for i := 0; i < 10; i++ {
				s, has := subst[v]
				if !has {
					break
				}
				v = stripConv(s)
			}
			if isNilConst(v) {
				// y is nil: the condition "y != nil" is false, "y == nil" is true
				condVal := !trueMeansNonNil
				if condVal != f.Pol {
					return true
				}
			}
		}
	}
	return false
}

// rvJointCases expands the phis among vals (as seen at site) into cases, one per combination of
// incoming edges, each with the guard facts of the edges taken. Phis of one (non-loop) block are
// resolved along the same edge. Cases whose facts are contradictory (a fact says the phi is
// non-nil while the edge supplies nil) are dropped.
//
// The expansion sees through extracted helpers: a parameter of a helper with one call site is the
// argument passed there, and results of a helper call are expanded jointly into the helper's
// returns (with the facts of the return).
func (p *Program) rvJointCases(site ssa.Instruction, vals []ssa.Value) []rvCase {
	inLoopOf := map[*ssa.Function]map[*ssa.BasicBlock]bool{}
	inLoop := func(b *ssa.BasicBlock) bool {
		fn := b.Parent()
		m, ok := inLoopOf[fn]
		if !ok {
			m = map[*ssa.BasicBlock]bool{}
			for _, l := range loopsOf(fn) {
				for bb := range l.Body {
					m[bb] = true
				}
			}
			inLoopOf[fn] = m
		}
		return m[b]
	}
	clone := func(c rvCase) rvCase {
		n := rvCase{Vals: append([]ssa.Value{}, c.Vals...), Facts: append([]Fact{}, c.Facts...), subst: map[ssa.Value]ssa.Value{}, edge: map[*ssa.BasicBlock]int{}}
		for a, bb := range c.subst {
			n.subst[a] = bb
		}
		for a, bb := range c.edge {
			n.edge[a] = bb
		}
		return n
	}
	start := rvCase{Vals: append([]ssa.Value{}, vals...), Facts: p.FactsAtX(site.Block()), subst: map[ssa.Value]ssa.Value{}, edge: map[*ssa.BasicBlock]int{}}
	var out []rvCase
	var rec func(c rvCase, depth int)
	rec = func(c rvCase, depth int) {
		if p.rvFactsContradict(c.Facts, c.subst) {
			return
		}
		if depth >= 14 {
			out = append(out, c)
			return
		}
		// parameters of extracted helpers denote the argument of the (single) call
		for i, v := range c.Vals {
			prm, ok := stripConv(v).(*ssa.Parameter)
			if !ok {
				continue
			}
			if _, done := c.subst[prm]; done {
				continue
			}
			if arg := p.soleArgument(prm); arg != nil {
				n := clone(c)
				n.subst[prm] = arg
				n.Vals[i] = arg
				rec(n, depth+1)
				return
			}
		}
		// results of extracted helpers: one case per return of the helper, all results jointly
		for _, v := range c.Vals {
			call, _ := asCall(v)
			if call == nil {
				continue
			}
			if _, done := c.subst[call]; done {
				continue
			}
			h := staticCallee(call.Common())
			if h == nil || !p.inlinable(h) || h == site.Parent() {
				continue
			}
			expanded := false
			for _, b := range h.Blocks {
				if len(b.Instrs) == 0 || (h.Recover != nil && b == h.Recover) {
					continue
				}
				ret, isRet := b.Instrs[len(b.Instrs)-1].(*ssa.Return)
				if !isRet {
					continue
				}
				n := clone(c)
				n.subst[call] = call
				good := true
				for j, w := range c.Vals {
					cj, ij := asCall(w)
					if cj != call {
						continue
					}
					if ij < 0 {
						ij = 0
					}
					if ij >= len(ret.Results) {
						good = false
						break
					}
					r := p.resolveResult(ret.Results[ij], ret)
					n.subst[stripConv(w)] = r
					n.Vals[j] = r
				}
				if !good {
					continue
				}
				n.Facts = append(n.Facts, p.FactsAtX(b)...)
				expanded = true
				rec(n, depth+1)
			}
			if expanded {
				return
			}
		}
		var ph *ssa.Phi
		for _, v := range c.Vals {
			if x, ok := stripConv(v).(*ssa.Phi); ok {
				if _, done := c.subst[x]; !done {
					ph = x
					break
				}
			}
		}
		if ph == nil {
			out = append(out, c)
			return
		}
		b := ph.Block()
		edges := make([]int, 0, len(ph.Edges))
		if k, chosen := c.edge[b]; chosen && !inLoop(b) {
			edges = append(edges, k)
		} else {
			for k := range ph.Edges {
				edges = append(edges, k)
			}
		}
		for _, k := range edges {
			n := clone(c)
			n.edge[b] = k
			for j, v := range c.Vals {
				if x, ok := stripConv(v).(*ssa.Phi); ok && x.Block() == b {
					if _, done := c.subst[x]; !done {
						n.subst[x] = x.Edges[k]
						n.Vals[j] = x.Edges[k]
					}
				}
			}
			n.Facts = append(n.Facts, p.FactsOnEdgeX(b.Preds[k], b)...)
			rec(n, depth+1)
		}
	}
	rec(start, 0)
	return out
}

// ---------------------------------------------------------------------------------------------
// Sorting by revision

// rvSortAscending: `in` is sort.Sort/sort.Stable(T(S')) with S' ≡ S and T.Less(i,j) ≡
// S[i].GetRevision() < S[j].GetRevision().
func (p *Program) rvSortAscending(in ssa.Instruction, s ssa.Value) (bool, string) {
	ci, ok := in.(ssa.CallInstruction)
	if !ok || !isCallTo(ci.Common(), "sort.Sort", "sort.Stable") || len(ci.Common().Args) != 1 {
		return false, ""
	}
	mi, ok := ci.Common().Args[0].(*ssa.MakeInterface)
	if !ok {
		return false, "sort argument is not a direct conversion"
	}
	nt := namedTypeString(mi.X.Type())
	if !p.sameValue(stripConv(mi.X), s) {
		return false, "a different slice is sorted"
	}
	if nt == "" {
		return false, "sorted value has no named sort.Interface type"
	}
	less := p.funcByID["("+nt+").Less"]
	if less == nil {
		return false, "cannot resolve (" + nt + ").Less"
	}
	if ok, why := rvLessAscendingByRevision(less); !ok {
		return false, "(" + nt + ").Less: " + why
	}
	return true, "sort.Sort(" + nt[strings.LastIndex(nt, ".")+1:] + ") ascending by GetRevision()"
}

func rvLessAscendingByRevision(less *ssa.Function) (bool, string) {
	if len(less.Params) != 3 {
		return false, "unexpected signature"
	}
	var rets []*ssa.Return
	for _, b := range less.Blocks {
		for _, in := range b.Instrs {
			if r, ok := in.(*ssa.Return); ok {
				rets = append(rets, r)
			}
		}
	}
	if len(rets) != 1 || len(rets[0].Results) != 1 {
		return false, "not a single-expression comparison"
	}
	b, ok := rets[0].Results[0].(*ssa.BinOp)
	if !ok {
		return false, "result is not a comparison"
	}
	side := func(v ssa.Value) int { // 1 = element i, 2 = element j
		recv, _, ok := rvMethodOn(v, "GetRevision")
		if !ok {
			return 0
		}
		ia := rvElemAddr(recv)
		if ia == nil || ia.X != ssa.Value(less.Params[0]) {
			return 0
		}
		switch ia.Index {
		case ssa.Value(less.Params[1]):
			return 1
		case ssa.Value(less.Params[2]):
			return 2
		}
		return 0
	}
	l, r := side(b.X), side(b.Y)
	switch {
	case b.Op == token.LSS && l == 1 && r == 2, b.Op == token.GTR && l == 2 && r == 1:
		return true, ""
	}
	return false, "does not compare a[i].GetRevision() < a[j].GetRevision()"
}

// rvIsLastIndexOf: idx ≡ len(S) - 1.
func (p *Program) rvIsLastIndexOf(idx, s ssa.Value) bool {
	b, ok := idx.(*ssa.BinOp)
	if !ok || b.Op != token.SUB {
		return false
	}
	if one, isOne := constInt(b.Y); !isOne || one != 1 {
		return false
	}
	a := rvLenArg(b.X)
	return a != nil && p.sameValue(a, s)
}

// rvBoundFunc resolves a function value (bound method closure, plain function, closure) to the
// function that runs.
func (p *Program) rvFuncOfValue(v ssa.Value) *ssa.Function {
	v = stripConv(v)
	switch x := v.(type) {
	case *ssa.Function:
		return x
	case *ssa.MakeClosure:
		f, ok := x.Fn.(*ssa.Function)
		if !ok {
			return nil
		}
		if strings.HasPrefix(f.Synthetic, "bound method wrapper") {
			if obj, isFunc := f.Object().(*types.Func); isFunc {
				return p.SSA.FuncValue(obj)
			}
			return nil
		}
		return f
	}
	return nil
}

// rvShort renders a value compactly for messages (phis by their source name).
func rvShort(p *Program, v ssa.Value) string {
	if v == nil {
		return "?"
	}
	switch x := stripConv(v).(type) {
	case *ssa.Phi:
		if x.Comment != "" {
			return x.Comment
		}
		return x.Name()
	case *ssa.BinOp:
		return rvShort(p, x.X) + " " + x.Op.String() + " " + rvShort(p, x.Y)
	case *ssa.UnOp:
		if ia, ok := x.X.(*ssa.IndexAddr); ok && x.Op == token.MUL {
			return rvShort(p, ia.X) + "[" + rvShort(p, ia.Index) + "]"
		}
	}
	s := p.describe(v)
	if len(s) > 100 {
		s = s[:100] + "…"
	}
	return s
}

// ---------------------------------------------------------------------------------------------
// Call-chain sensitive views (for helpers with several call sites, where Program.key cannot unify a
// parameter with "the" argument): an XCall found by callsInX(root) carries the chain of helper calls
// that leads to it; the functions below interpret values / ordering / facts along that chain.

// xcResolve maps a value of the function at the end of chain to the value it denotes in an outer
// function: parameters of the helper are replaced by the arguments of the chain's call, outwards
// as far as possible.
func (p *Program) xcResolve(v ssa.Value, chain []Call) ssa.Value {
	v = stripConv(v)
	for i := len(chain) - 1; i >= 0; i-- {
		prm, ok := v.(*ssa.Parameter)
		if !ok {
			break
		}
		callee := staticCallee(chain[i].Common)
		if callee == nil || prm.Parent() != callee {
			break
		}
		idx := -1
		for k, q := range callee.Params {
			if q == prm {
				idx = k
			}
		}
		if idx < 0 || idx >= len(chain[i].Common.Args) {
			break
		}
		v = stripConv(chain[i].Common.Args[idx])
	}
	return v
}

// xcMustPrecede: on every path from the entry of the root function to the call xc (through the
// helper calls of its chain) an instruction satisfying match is executed first.
func (p *Program) xcMustPrecede(xc XCall, match func(ssa.Instruction) bool) bool {
	m := p.liftMatch(match, 0)
	if p.mustPrecede(xc.Instr, m) {
		return true
	}
	for i := len(xc.Chain) - 1; i >= 0; i-- {
		if p.mustPrecede(xc.Chain[i].Instr, m) {
			return true
		}
	}
	return false
}

// xcNilness: is v (a value of the root function) known nil / non-nil at the call xc, given the
// facts at the call and at the helper calls of its chain?
func (p *Program) xcNilness(xc XCall, v ssa.Value) tri {
	level := func(in ssa.Instruction, chain []Call) tri {
		for _, f := range p.FactsAt(in.Block()) {
			y, trueMeansNonNil, ok := errNilTest(f.Cond)
			if !ok {
				continue
			}
			y = p.xcResolve(y, chain)
			if y == stripConv(v) || p.sameValue(y, v) {
				if f.Pol == trueMeansNonNil {
					return noTri
				}
				return yesTri
			}
		}
		return unknownTri
	}
	if t := level(xc.Instr, xc.Chain); t != unknownTri {
		return t
	}
	for i := len(xc.Chain) - 1; i >= 0; i-- {
		if t := level(xc.Chain[i].Instr, xc.Chain[:i]); t != unknownTri {
			return t
		}
	}
	return unknownTri
}

// ---------------------------------------------------------------------------------------------
// Guards materialised in an extracted boolean helper (`if r.canReuse(a, b) { … }`).

// xImplied returns fs plus the facts implied by those facts whose condition is the result of an
// extracted helper (see Program.inlinable) with a single call site and a single boolean result:
// if the call evaluated to Pol, the helper left through a return that can produce Pol, so the
// facts common to all such returns hold (for a non-constant result additionally "result == Pol").
// Parameters of the helper are unified with the arguments by Program.key, so the implied facts
// can be matched against values of the caller. Same idea as the engine's phiImplied for booleans
// kept in a variable.
func (p *Program) xImplied(fs []Fact) []Fact {
	out := append([]Fact{}, fs...)
	have := map[string]bool{}
	for _, f := range out {
		have[f.key] = true
	}
	expanded := map[*ssa.Call]bool{}
	for i := 0; i < len(out) && i < 400; i++ {
		f := out[i]
		call, idx := asCall(f.Cond)
		if call == nil || idx != -1 || expanded[call] {
			continue
		}
		if _, direct := stripConv(f.Cond).(*ssa.Call); !direct {
			continue
		}
		h := staticCallee(call.Common())
		if h == nil || !p.inlinable(h) || len(p.callersOf(h)) != 1 || h == call.Parent() {
			continue
		}
		res := h.Signature.Results()
		if res.Len() != 1 {
			continue
		}
		if bt, isB := res.At(0).Type().Underlying().(*types.Basic); !isB || bt.Info()&types.IsBoolean == 0 {
			continue
		}
		expanded[call] = true
		var common map[string]Fact
		for _, rc := range p.returnCases(h) {
			if h.Recover != nil && rc.Ret.Block() == h.Recover {
				continue
			}
			if len(rc.Results) != 1 || rc.Results[0] == nil {
				common = map[string]Fact{}
				break
			}
			cand := map[string]Fact{}
			for _, g := range rc.Facts {
				cand[g.key] = g
			}
			r := rc.Results[0]
			if cb, isC := constBool(r); isC {
				if cb != f.Pol {
					continue // this return cannot have produced the value
				}
			} else {
				g := p.mkFact(r, f.Pol)
				if _, contradiction := cand[p.mkFact(r, !f.Pol).key]; contradiction {
					continue
				}
				cand[g.key] = g
			}
			if common == nil {
				common = cand
			} else {
				for k := range common {
					if _, ok := cand[k]; !ok {
						delete(common, k)
					}
				}
			}
		}
		keys := make([]string, 0, len(common))
		for k := range common {
			keys = append(keys, k)
		}
		sort.Strings(keys)
		for _, k := range keys {
			if !have[k] {
				have[k] = true
				out = append(out, common[k])
			}
		}
	}
	return out
}
