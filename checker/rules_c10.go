package main

import (
	"fmt"
	"go/token"
	"go/types"
	"os"
	"sort"
	"strings"

	"golang.org/x/tools/go/ssa"
)

// C10 — Convergence from any crash, fault or drift (narrow structural core).

func init() {
	register(&Property{
		ID: "C10",
		Explanation: "Convergence and quiescence are liveness properties of histories and are NOT decided. Decided are three structural necessary conditions on the product functions " +
			"reachable from the six Reconcile(context.Context, reconcile.Request) roots: (R1) the error result of every Kubernetes API call (controller-runtime Reader/Writer/StatusWriter methods, " +
			"dynamic cache Watch/Free) and of every workspace function that transitively performs one is consumed by the program — never discarded (`_ =`, bare call statement, go/defer) and never " +
			"only handed to a logger; (R2) every read of a dynamic (unstructured / client.Object-typed) object in internal/controllers and the ObjectTemplate controller is preceded on all paths by an " +
			"error-free dynamicCache.Watch for the object it reads (in the same function or at every caller), because the cache is in-memory only; (R3) writes to memory that outlives a reconcile " +
			"(package-level variables, state reached through a method receiver) are limited to a frozen table, and merge patches that change metadata.finalizers carry the resourceVersion of the object they were computed from.",
		NotDecided: []string{"eventual repair after faults, restarts and drift (liveness)", "equality of the end state with the undisturbed run",
			"absence of write/write fights between controllers or revisions at quiescence", "whether a returned error actually leads to a requeue (controller-runtime behaviour, trusted)",
			"errors that are tested and then deliberately ignored on some branch (IsNotFound ladders) — the ladders are not re-derived here"},
		Technique: "workspace call graph reachability from Reconcile roots; use-def classification of error results; must-precede + error-nil guard facts (intra-procedural, lifted to all callers); " +
			"address-root analysis of stores / map updates; map-literal resolution of merge patches",
		Rules: []Rule{
			{ID: "C10.R1", Min: 120, Run: c10r1, Statement: "the error result of every API call (and of every workspace function that transitively performs one) on a reconcile path is consumed: not discarded and not merely logged"},
			{ID: "C10.R2", Min: 6, Run: c10r2, Statement: "every read of a dynamic object in the phase reconciler and the ObjectTemplate controller is preceded on all paths by an error-free dynamicCache.Watch for the object read (same function, or every caller)"},
			{ID: "C10.R3", Min: 10, Run: c10r3, Statement: "writes to state that outlives a reconcile are limited to the frozen table; finalizer merge patches carry metadata.resourceVersion of the patched object"},
		},
	})
}

// ---------------------------------------------------------------------------------------------
// Scope: product functions reachable from the Reconcile(context.Context, reconcile.Request) roots.

type c10Scope struct {
	g     *wsGraph
	reach map[*ssa.Function]bool
	via   map[*ssa.Function]*ssa.Function
	fns   []*ssa.Function
	roots []*ssa.Function
	api   map[*ssa.Function]bool // workspace functions returning error that transitively perform an API call
}

var c10ScopeCache = map[*Program]*c10Scope{}

func c10ScopeOf(p *Program) *c10Scope {
	if s := c10ScopeCache[p]; s != nil {
		return s
	}
	g := p.wsCallGraph()
	s := &c10Scope{g: g, api: map[*ssa.Function]bool{}}
	for _, f := range p.productFuncs() {
		if isReconcileMethod(f) {
			s.roots = append(s.roots, f)
		}
	}
	s.reach, s.via = g.reachableFrom(s.roots)
	for f := range s.reach {
		if g.ws[f] {
			s.fns = append(s.fns, f)
		}
	}
	sort.Slice(s.fns, func(i, j int) bool { return s.fns[i].String() < s.fns[j].String() })
	// transitive "performs an API call" over call edges, restricted to functions returning error
	changed := true
	direct := map[*ssa.Function]bool{}
	for f := range g.ws {
		for _, cl := range callsIn(f) {
			if isAPICall(cl.Common) != "" {
				direct[f] = true
			}
		}
	}
	contains := map[*ssa.Function]bool{}
	for f := range direct {
		contains[f] = true
	}
	for changed {
		changed = false
		for f := range g.ws {
			if contains[f] {
				continue
			}
			for _, t := range g.callees(f) {
				if contains[t] {
					contains[f] = true
					changed = true
					break
				}
			}
		}
	}
	for f := range contains {
		if c10ErrResultIndex(f.Signature) >= 0 {
			s.api[f] = true
		}
	}
	c10ScopeCache[p] = s
	return s
}

func c10ErrResultIndex(sig *types.Signature) int {
	res := sig.Results()
	for i := res.Len() - 1; i >= 0; i-- {
		if res.At(i).Type().String() == "error" {
			return i
		}
	}
	return -1
}

// isAPICall classifies a call as a Kubernetes API / dynamic cache call whose error matters for
// convergence: methods of controller-runtime's client.Reader/Writer/StatusWriter/SubResourceWriter
// (selected by method name and the client.Object / client.ObjectList parameter), and Watch/Free of the
// dynamic cache (error-returning methods named Watch/Free taking a client.Object).
func isAPICall(cc *ssa.CallCommon) string {
	name := calleeName(cc)
	var sig *types.Signature
	if cc.IsInvoke() {
		sig, _ = cc.Method.Type().(*types.Signature)
	} else if f := staticCallee(cc); f != nil && f.Signature.Recv() != nil {
		sig = f.Signature
	}
	if sig == nil || c10ErrResultIndex(sig) < 0 || sig.Params().Len() < 2 || sig.Params().At(0).Type().String() != "context.Context" {
		return ""
	}
	hasObj := false
	for i := 1; i < sig.Params().Len(); i++ {
		switch namedTypeString(sig.Params().At(i).Type()) {
		case pkgClient + ".Object", pkgClient + ".ObjectList":
			hasObj = true
		}
	}
	if !hasObj {
		return ""
	}
	switch name {
	case "Get", "List", "Create", "Update", "Patch", "Delete", "DeleteAllOf":
		return "client." + name
	case "Watch", "Free":
		return "dynamicCache." + name
	}
	return ""
}

// ---------------------------------------------------------------------------------------------

func init() {
	if os.Getenv("PKOCHECK_C10_RAW") != "" {
		properties["C10"].Rules = append(properties["C10"].Rules, Rule{ID: "C10.RAW", Run: c10raw, Statement: "raw dump (triage aid, not a rule)"})
	}
}

func c10raw(c *Ctx) {
	p := c.P
	s := c10ScopeOf(p)
	w := os.Stderr
	what := os.Getenv("PKOCHECK_C10_RAW")
	fmt.Fprintf(w, "roots=%d reachable=%d api-funcs=%d\n", len(s.roots), len(s.fns), len(s.api))
	if strings.Contains(what, "err") {
		for _, fn := range s.fns {
			for _, cl := range callsIn(fn) {
				kind := isAPICall(cl.Common)
				if kind == "" {
					if t := staticCallee(cl.Common); t != nil && s.api[t] {
						kind = "via " + shortFuncID(t)
					} else {
						continue
					}
				}
				use := p.errorUse(cl)
				fmt.Fprintf(w, "ERR %-10s %s %s %s\n", use, shortFuncID(fn), p.IPos(cl.Instr), kind)
			}
		}
	}
	if strings.Contains(what, "store") {
		for _, fn := range s.fns {
			for _, b := range fn.Blocks {
				for _, in := range b.Instrs {
					addr, kind := stateWrite(in)
					if addr == nil {
						continue
					}
					if root, path, api := stateRoot(fn, addr, kind != "store"); root != "" && !api {
						fmt.Fprintf(w, "STORE %s %s %s %s %s\n", kind, shortFuncID(fn), p.IPos(in), root, path)
					}
				}
			}
		}
	}
}

// stateWrite: the address / map written by a store, map update or delete(map, k).
func stateWrite(in ssa.Instruction) (ssa.Value, string) {
	switch x := in.(type) {
	case *ssa.Store:
		return x.Addr, "store"
	case *ssa.MapUpdate:
		return x.Map, "mapupdate"
	case *ssa.Call:
		if isCallTo(x.Common(), "builtin:delete") && len(x.Common().Args) == 2 {
			return x.Common().Args[0], "mapdelete"
		}
	}
	return nil, ""
}

// errorUse classifies what happens to the error result of a call: "dropped" (no use at all),
// "used" otherwise.
func (p *Program) errorUse(cl Call) string {
	v := cl.Value()
	if v == nil {
		return "dropped" // go / defer: results are discarded
	}
	sig := cl.Common.Signature()
	idx := c10ErrResultIndex(sig)
	if idx < 0 {
		return "noerr"
	}
	var errVal ssa.Value
	if sig.Results().Len() == 1 {
		errVal = v
	} else {
		for _, r := range referrersOf(v) {
			if ex, ok := r.(*ssa.Extract); ok && ex.Index == idx {
				errVal = ex
			}
		}
		if errVal == nil {
			return "dropped"
		}
	}
	consumed, logged, tested := false, false, false
	seen := map[ssa.Value]bool{}
	var walk func(v ssa.Value, d int)
	walk = func(v ssa.Value, d int) {
		if seen[v] || d > 8 || consumed {
			return
		}
		seen[v] = true
		for _, r := range referrersOf(v) {
			switch x := r.(type) {
			case *ssa.DebugRef:
			case *ssa.Return:
				consumed = true
			case *ssa.MakeInterface, *ssa.ChangeInterface, *ssa.Phi, *ssa.Extract, *ssa.TypeAssert, *ssa.ChangeType:
				walk(x.(ssa.Value), d+1)
			case *ssa.BinOp, *ssa.If:
				tested = true
			case *ssa.Store:
				if x.Val != v {
					continue
				}
				switch a := x.Addr.(type) {
				case *ssa.Alloc:
					// local / named result: follow its loads (flow-insensitive); a captured variable is handed over
					for _, rr := range referrersOf(a) {
						switch y := rr.(type) {
						case *ssa.UnOp:
							walk(y, d+1)
						case *ssa.MakeClosure:
							consumed = true
						}
					}
				case *ssa.IndexAddr:
					if al := allocOf(a); al != nil {
						for _, rr := range referrersOf(al) {
							if sl, ok := rr.(*ssa.Slice); ok {
								walk(sl, d+1)
							}
						}
					} else {
						consumed = true
					}
				default:
					consumed = true // stored into a structure / captured variable: handed over
				}
			case ssa.CallInstruction:
				cc := x.Common()
				switch {
				case isLogCall(cc):
					logged = true
				case isErrorTest(cc):
					tested = true
				default:
					// wrapped (fmt.Errorf, IgnoreNotFound, errors.Join …): follow the result; anything else that
					// takes the error (condition setters, err.Error() for a status message, channels) handles it
					if cv := x.Value(); cv != nil && c10ErrResultIndex(cc.Signature()) >= 0 {
						if cc.Signature().Results().Len() == 1 {
							walk(cv, d+1)
						} else {
							for _, rr := range referrersOf(cv) {
								if ex, ok := rr.(*ssa.Extract); ok && ex.Index == c10ErrResultIndex(cc.Signature()) {
									walk(ex, d+1)
								}
							}
						}
					} else {
						consumed = true
					}
				}
			default:
				consumed = true
			}
		}
	}
	walk(errVal, 0)
	switch {
	case consumed:
		return "used"
	case logged:
		return "only logged (and tested), never returned, wrapped or handed to a handler"
	case tested:
		return "only tested, never returned, wrapped or handed to a handler"
	}
	return "dropped"
}

// isErrorTest: predicates on an error that do not propagate it.
func isErrorTest(cc *ssa.CallCommon) bool {
	id := calleeID(cc)
	if id == "errors.Is" || id == "errors.As" {
		return true
	}
	if strings.HasPrefix(id, pkgAPIErr+".Is") || strings.HasPrefix(id, pkgMeta+".IsNoMatchError") {
		return true
	}
	return false
}

// isLogCall: a logr.Logger / logr.LogSink method (Error, Info, …) — logging an error is not handling it.
func isLogCall(cc *ssa.CallCommon) bool {
	id := calleeID(cc)
	return strings.HasPrefix(id, "(github.com/go-logr/logr.Logger).") || strings.HasPrefix(id, "invoke:github.com/go-logr/logr.")
}

// stateRoot: does addr denote memory that outlives the activation — a package-level variable, or
// memory reached from the method receiver through a pointer, slice or map? Stores into local
// variables (including the local copy of a value receiver and spilled parameters) are not state.
// apiField reports that the innermost field written belongs to a struct declared in an API package
// (package-operator.run/apis/..., k8s.io/...): that is object content on its way to the API server.
func stateRoot(fn *ssa.Function, addr ssa.Value, isMap bool) (root, path string, apiField bool) {
	root, path, apiField, _ = stateRootOwner(fn, addr, isMap)
	return
}

// stateField is one field selection on the way from the root to the written memory.
type stateField struct {
	Owner string // named type of the struct that declares the field
	Name  string
	Local bool // the struct is a local copy (value receiver): the field itself is not shared memory
}

// stateRootOwner is stateRoot that also reports the field selections of the path, outermost first.
func stateRootOwner(fn *ssa.Function, addr ssa.Value, isMap bool) (root, path string, apiField bool, fields []stateField) {
	var parts []string
	v := addr
	shared := isMap
	first := true
	singleStore := func(a *ssa.Alloc) ssa.Value {
		var src ssa.Value
		n := 0
		for _, r := range referrersOf(a) {
			if st, ok := r.(*ssa.Store); ok && st.Addr == ssa.Value(a) {
				src = st.Val
				n++
			}
		}
		if n != 1 {
			return nil
		}
		return src
	}
	for i := 0; i < 20; i++ {
		switch x := v.(type) {
		case *ssa.Global:
			return "global:" + x.String(), strings.Join(parts, ""), apiField, fields
		case *ssa.FieldAddr:
			if first {
				owner := namedTypeString(x.X.Type())
				apiField = strings.HasPrefix(owner, modPKO+"/apis/") || strings.HasPrefix(owner, "k8s.io/")
				first = false
			}
			parts = append([]string{"." + fieldName(x.X.Type(), x.Field)}, parts...)
			_, local := x.X.(*ssa.Alloc)
			fields = append([]stateField{{Owner: namedTypeString(x.X.Type()), Name: fieldName(x.X.Type(), x.Field), Local: local}}, fields...)
			if al, isAlloc := x.X.(*ssa.Alloc); isAlloc {
				// field of a local struct: only interesting when we already crossed a pointer/slice/map
				// stored in it (value receiver holding a pointer to shared state)
				src := singleStore(al)
				if !shared || src == nil {
					return "", "", false, nil
				}
				v = src
				continue
			}
			shared = true
			v = x.X
		case *ssa.Field:
			parts = append([]string{"." + fieldName(x.X.Type(), x.Field)}, parts...)
			fields = append([]stateField{{Owner: namedTypeString(x.X.Type()), Name: fieldName(x.X.Type(), x.Field), Local: true}}, fields...)
			v = x.X
		case *ssa.IndexAddr:
			parts = append([]string{"[i]"}, parts...)
			if _, isSlice := x.X.Type().Underlying().(*types.Slice); isSlice {
				shared = true
			} else if _, isAlloc := x.X.(*ssa.Alloc); isAlloc {
				return "", "", false, nil
			}
			v = x.X
		case *ssa.Lookup:
			parts = append([]string{"[k]"}, parts...)
			shared = true
			v = x.X
		case *ssa.Slice:
			v = x.X
		case *ssa.UnOp:
			if x.Op != token.MUL {
				return "", "", false, nil
			}
			switch a := x.X.(type) {
			case *ssa.Alloc:
				src := singleStore(a)
				if src == nil {
					return "", "", false, nil
				}
				v = src
			case *ssa.FreeVar:
				par := fn.Parent()
				idx := -1
				for k, fv := range fn.FreeVars {
					if fv == a {
						idx = k
					}
				}
				var bound ssa.Value
				if par != nil {
					for _, b := range par.Blocks {
						for _, in := range b.Instrs {
							if mc, ok := in.(*ssa.MakeClosure); ok && mc.Fn == ssa.Value(fn) && idx >= 0 && idx < len(mc.Bindings) {
								bound = mc.Bindings[idx]
							}
						}
					}
				}
				al, ok := bound.(*ssa.Alloc)
				if !ok {
					return "", "", false, nil
				}
				src := singleStore(al)
				if src == nil {
					return "", "", false, nil
				}
				fn, v = par, src
			default:
				v = x.X
			}
		case *ssa.Parameter:
			if shared && fn.Signature.Recv() != nil && len(fn.Params) > 0 && fn.Params[0] == x {
				return "recv:" + namedTypeString(x.Type()), strings.Join(parts, ""), apiField, fields
			}
			return "", "", false, nil
		default:
			return "", "", false, nil
		}
	}
	return "", "", false, nil
}

// ---------------------------------------------------------------------------------------------
// R1

var c10ErrTable = map[string]c19Entry{
	"(*internal/dynamiccache.Cache).sampleMetrics": c19E(1, "best-effort metrics sampling",
		"listing cached objects only to record a gauge; the list is served from the informer store, no managed object or status depends on it, the next Watch/Free samples again"),
}

func c10ScopeOb(c *Ctx) *c10Scope {
	s := c10ScopeOf(c.P)
	o := c.Ob(nil, "scope", nil, "the analysed scope is not vacuous")
	o.Require("6 Reconcile(context.Context, reconcile.Request) roots", "≥ 600 reachable product functions")
	o.Note(fmt.Sprintf("%d Reconcile roots, %d reachable product functions, %d error-returning functions that transitively perform an API call", len(s.roots), len(s.fns), len(s.api)))
	if len(s.roots) < 6 || len(s.fns) < 600 {
		o.Fail("reason=anchor-lost: scope shrank (roots=%d reachable=%d)", len(s.roots), len(s.fns))
	} else {
		o.OK()
	}
	for _, f := range s.fns {
		c.Visit(f)
	}
	return s
}

func c10r1(c *Ctx) {
	p := c.P
	s := c10ScopeOb(c)
	var hits []c19Hit
	direct := 0
	for _, fn := range s.fns {
		for _, cl := range callsIn(fn) {
			kind := isAPICall(cl.Common)
			if kind != "" {
				direct++
			} else if t := staticCallee(cl.Common); t != nil && s.api[t] {
				kind = "via " + shortFuncID(t)
			} else if impl := s.g.implementations(cl.Common); len(impl) > 0 && c10ErrResultIndex(cl.Common.Signature()) >= 0 {
				for _, t := range impl {
					if s.api[t] {
						kind = "via " + shortFuncID(t)
						break
					}
				}
			}
			if kind == "" {
				continue
			}
			construct := "err-of-" + calleeName(cl.Common)
			switch use := p.errorUse(cl); use {
			case "used":
				c.Ob(fn, construct, cl.Instr, c.rule.Statement).OK(kind + ": error consumed")
			case "noerr":
			default:
				hits = append(hits, c19Hit{fn, cl.Instr, construct, fmt.Sprintf("%s: error result is %s", kind, use)})
			}
		}
	}
	if direct < 60 {
		c.AnchorLost(fmt.Sprintf("direct controller-runtime / dynamic cache call sites on reconcile paths (found %d, ≥ 60 confirmed)", direct))
	}
	c19Admit(c, c10ErrTable, hits, "dropped API error")
}

// ---------------------------------------------------------------------------------------------
// R2

func isDynObjectArg(v ssa.Value) bool {
	switch namedTypeString(stripConv(v).Type()) {
	case pkgUnstr + ".Unstructured", pkgUnstr + ".UnstructuredList":
		return true
	}
	return classifyObjectArg(v) != "typed"
}

// dynRead: Get/List of a dynamic object; returns the object read and the key source (Get only).
func dynRead(cc *ssa.CallCommon) (obj, key ssa.Value, ok bool) {
	args := callArgs(cc)
	switch isAPICall(cc) {
	case "client.Get":
		if len(args) >= 3 && isDynObjectArg(args[2]) {
			return args[2], args[1], true
		}
	case "client.List":
		if len(args) >= 2 && isDynObjectArg(args[1]) {
			return args[1], nil, true
		}
	}
	return nil, nil, false
}

// relatedToWatched: the read concerns the watched object w: same value, a DeepCopy of it, keyed by
// client.ObjectKeyFromObject(w), or typed from w.GroupVersionKind().
func (p *Program) relatedToWatched(fn *ssa.Function, w, obj, key ssa.Value) bool {
	if p.sameValue(w, obj) {
		return true
	}
	if dc, _ := asCall(obj); dc != nil && calleeName(dc.Common()) == "DeepCopy" && p.sameValue(callRecv(dc.Common()), w) {
		return true
	}
	if key != nil {
		for _, kv := range p.possibleValues(key) {
			if kc, _ := asCall(kv); kc != nil && isCallTo(kc.Common(), pkgClient+".ObjectKeyFromObject") && p.sameValue(kc.Common().Args[0], w) {
				return true
			}
		}
	}
	for _, cl := range callsIn(fn) {
		if calleeName(cl.Common) == "SetGroupVersionKind" && p.sameValue(callRecv(cl.Common), obj) {
			if gc, _ := asCall(callArgs(cl.Common)[0]); gc != nil && calleeName(gc.Common()) == "GroupVersionKind" && p.sameValue(callRecv(gc.Common()), w) {
				return true
			}
		}
	}
	return false
}

// watchedBefore: an error-free Watch precedes `site` on every path; related(w) must accept its object.
func (p *Program) watchedBefore(site ssa.Instruction, related func(w ssa.Value) bool) (bool, string) {
	fn := site.Parent()
	fs := p.FactsAt(site.Block())
	why := "no dynamicCache.Watch call precedes the read on every path"
	for _, cl := range callsIn(fn) {
		wc, isCall := cl.Instr.(*ssa.Call)
		if !isCall || isAPICall(cl.Common) != "dynamicCache.Watch" {
			continue
		}
		if !p.mustPrecede(site, func(in ssa.Instruction) bool { return in == ssa.Instruction(wc) }) {
			continue
		}
		if !p.errOfCallIsNil(fs, wc) {
			why = "Watch at " + p.IPos(wc) + " precedes, but its error is not known to be nil at the read"
			continue
		}
		args := callArgs(cl.Common)
		if !related(args[len(args)-1]) {
			why = "Watch at " + p.IPos(wc) + " precedes, but it watches " + p.describe(args[len(args)-1]) + ", not the object that is read"
			continue
		}
		return true, "Watch at " + p.IPos(wc) + " (error nil) precedes"
	}
	return false, why
}

func c10r2(c *Ctx) {
	p := c.P
	s := c10ScopeOb(c)
	for _, fn := range s.fns {
		if pk := funcPkgPath(fn); pk != pkgControllers && pk != pkgObjTemplate {
			continue
		}
		for _, cl := range callsIn(fn) {
			obj, key, ok := dynRead(cl.Common)
			if !ok {
				continue
			}
			o := c.Ob(fn, "dyn-"+calleeName(cl.Common), cl.Instr, c.rule.Statement)
			o.Require("dynamicCache.Watch(ctx, owner, <object read>) with err == nil before the read on every path")
			if ok, why := p.watchedBefore(cl.Instr, func(w ssa.Value) bool { return p.relatedToWatched(fn, w, obj, key) }); ok {
				o.OK(why)
				continue
			}
			// helper: every static caller must have watched one of the objects it passes in
			callers := p.callersOf(fn)
			if len(callers) == 0 || p.addressTaken(fn) || fn.Parent() != nil {
				_, why := p.watchedBefore(cl.Instr, func(ssa.Value) bool { return true })
				o.Fail("read of %s is not behind a Watch of that object: %s (and the function has no static callers to lift the requirement to)", p.describe(obj), why)
				continue
			}
			bad := ""
			var notes []string
			for _, caller := range callers {
				cargs := caller.Common.Args
				ok, why := p.watchedBefore(caller.Instr, func(w ssa.Value) bool {
					for _, a := range cargs {
						if p.sameValue(a, w) {
							return true
						}
					}
					return false
				})
				if !ok {
					bad = shortFuncID(caller.Fn) + " at " + p.IPos(caller.Instr) + ": " + why
					break
				}
				notes = append(notes, shortFuncID(caller.Fn)+": "+why)
			}
			if bad != "" {
				o.Fail("read of %s is neither behind a Watch in this function nor at caller %s", p.describe(obj), bad)
			} else {
				o.OK("watched at every caller — " + strings.Join(notes, "; "))
			}
		}
	}
}

// ---------------------------------------------------------------------------------------------
// R3

// c10StateTable: memory that outlives a reconcile and may be written on a reconcile path, keyed by
// the owning type and the first path element (not by function).
var c10StateTable = map[string]string{
	"internal/dynamiccache.Cache.informerReferences":                          "mutex-guarded owner reference counts of the dynamic cache (C12); deliberately in-memory, rebuilt by Watch on every reconcile and teardown (R2)",
	"internal/dynamiccache.InformerMap.informers":                             "mutex-guarded informer registry of the dynamic cache (C12)",
	"internal/dynamiccache.cacheSource.settings":                              "event-source registry filled while controllers are wired, before the manager starts",
	"internal/dynamiccache.cacheSource.handlers":                              "event-handler registry of the dynamic cache, filled when sources start",
	"internal/dynamiccache.EnqueueWatchingObjects.groupKind":                  "computed once by the constructor from the watcher's Go type",
	"internal/environment.Manager.sinks":                                      "wiring of environment sinks at process start",
	"internal/environment.Sink.env":                                           "environment sink: last probed cluster environment, re-probed periodically and on start; an input of rendering, not progress",
	"internal/packages/internal/packageimport.RequestManager.inFlight":        "in-flight image pull table (C20); entries are deleted after every broadcast, a restart only forgets pulls in progress",
	"internal/controllers.recordingProbe.failures":                            "accumulator of a recordingProbe value that newRecordingProbe creates anew in every ReconcilePhase pass",
	"internal/controllers/objectdeployments.objectSetsByRevisionAscending[i]": "sort.Interface over the revision slice listed in this pass",
	"internal/packages/internal/packagerender.phaseCollector":                 "map built by newPhaseCollector for a single render",
}

// c10RenamedTypeEntry: key "pkg.T.field" is not in the table, but exactly one table entry
// "pkg.Old.field" of the same package and field names a type Old that no longer exists in the
// package, while T has no table entry of its own: the declaring type was renamed. The entry keeps
// describing the same field of the same package; a new piece of state (a new field, or a field of a
// type that sits next to the recorded ones) does not match.
func c10RenamedTypeEntry(p *Program, key string) (old, why string, ok bool) {
	split := func(k string) (pkg, typ, field string, ok bool) {
		i := strings.LastIndex(k, "/")
		rest := k[i+1:]
		parts := strings.SplitN(rest, ".", 3)
		if len(parts) != 3 || strings.ContainsAny(parts[2], ".[") {
			return "", "", "", false
		}
		return k[:i+1] + parts[0], parts[1], parts[2], true
	}
	pkg, typ, field, okk := split(key)
	if !okk {
		return "", "", false
	}
	pk := p.ByPath[modPKO+"/"+pkg]
	if pk == nil || pk.Types == nil {
		return "", "", false
	}
	var cands []string
	for k := range c10StateTable {
		kp, kt, kf, okk := split(k)
		if !okk || kp != pkg {
			continue
		}
		if kt == typ {
			return "", "", false // the type is known under this name: this is a different field of it
		}
		if kf == field && pk.Types.Scope().Lookup(kt) == nil {
			cands = append(cands, k)
		}
	}
	if len(cands) != 1 {
		return "", "", false
	}
	return cands[0], c10StateTable[cands[0]], true
}

func c10r3(c *Ctx) {
	p := c.P
	s := c10ScopeOb(c)
	for _, fn := range s.fns {
		for _, b := range fn.Blocks {
			for _, in := range b.Instrs {
				addr, kind := stateWrite(in)
				if addr == nil {
					continue
				}
				root, path, api, fields := stateRootOwner(fn, addr, kind != "store")
				if root == "" || api {
					continue // local memory, or content of an API object on its way to the API server
				}
				first := path
				if i := strings.IndexAny(path[min(1, len(path)):], ".["); i >= 0 {
					first = path[:i+1]
				}
				key := strings.TrimPrefix(strings.TrimPrefix(root, "recv:"), modPKO+"/") + first
				if strings.HasPrefix(root, "global:") {
					key = strings.TrimPrefix(strings.TrimPrefix(root, "global:"), modPKO+"/")
				} else if len(fields) > 0 && fields[0].Local {
					// value receiver: the leading fields live in the local copy of the receiver; the memory that
					// outlives the activation is the first field reached through a pointer — key by the struct
					// that declares it (`e.source.handlers` writes cacheSource.handlers, whatever the wrapper is called)
					for _, sf := range fields {
						if !sf.Local && sf.Owner != "" {
							key = strings.TrimPrefix(sf.Owner, modPKO+"/") + "." + sf.Name
							break
						}
					}
				}
				o := c.Ob(fn, kind+"-"+key, in, c.rule.Statement)
				if why, ok := c10StateTable[key]; ok {
					o.OK("table: " + why)
				} else if old, why, ok := c10RenamedTypeEntry(p, key); ok {
					o.OK("table (type of entry " + old + " was renamed): " + why)
				} else if local, why := c10RecvWriteIsPathLocal(p, s, fn, root, fields, kind != "store" || len(fields) > 1 || strings.ContainsAny(path[min(1, len(path)):], ".[")); local {
					o.OK("the receiver does not outlive the reconcile: " + why)
				} else {
					if why != "" {
						o.Note("receiver not provably allocated on the reconcile path: " + why)
					}
					o.Require("a frozen-table entry for " + key)
					o.Fail("%s of %s%s on a reconcile path (reachable: %s) writes state that outlives the reconcile and is not in the frozen table: progress kept only in memory is lost on restart", kind, root, path, pathTo(s.via, fn))
				}
			}
		}
	}
	// finalizer merge patches
	n := 0
	for _, ws := range allWriterSites(p.productFuncs()) {
		if ws.Verb != "Patch" {
			continue
		}
		args := callArgs(ws.Call.Common)
		if len(args) < 3 {
			continue
		}
		pc, _ := asCall(args[2])
		if pc == nil || !isCallTo(pc.Common(), pkgClient+".RawPatch") || len(pc.Common().Args) != 2 {
			continue
		}
		// the patch body may be built by an extracted helper (`patchJSON, err := finalizersPatchJSON(obj)`):
		// look through the results of inlinable helpers and map the helper's parameters back to the
		// arguments of this call
		var body ssa.Value
		var via []*ssa.Call
		for _, bv := range p.possibleValuesXC(pc.Common().Args[1]) {
			if mc, idx := asCall(bv.V); mc != nil && idx == 0 && isCallTo(mc.Common(), "encoding/json.Marshal") {
				body, via = mc.Common().Args[0], bv.Via
			}
		}
		top, ok := mapLiteral(body)
		if !ok {
			continue
		}
		md, ok := mapLiteral(top["metadata"])
		if !ok {
			continue
		}
		if _, touches := md["finalizers"]; !touches {
			continue
		}
		n++
		o := c.Ob(ws.Call.Fn, "finalizer-patch", ws.Call.Instr, "a merge patch that replaces metadata.finalizers carries metadata.resourceVersion of the object it patches (optimistic concurrency)")
		o.Require("metadata.resourceVersion == <patched object>.GetResourceVersion()")
		rv, has := md["resourceVersion"]
		if !has {
			o.Fail("patch body sets metadata.finalizers without metadata.resourceVersion: a concurrent writer's finalizers are overwritten blindly")
			continue
		}
		rc, _ := asCall(rv)
		if rc == nil || calleeName(rc.Common()) != "GetResourceVersion" || !p.sameValue(upCalls(callRecv(rc.Common()), via), ws.Obj) {
			o.Fail("metadata.resourceVersion is %s, not GetResourceVersion() of the patched object %s", p.describe(rv), p.describe(ws.Obj))
			continue
		}
		o.OK("resourceVersion of the patched object")
	}
	if n < 2 {
		c.AnchorLost(fmt.Sprintf("merge patches of metadata.finalizers (found %d, 2 confirmed: EnsureFinalizer, RemoveFinalizer)", n))
	}
}

// ---------------------------------------------------------------------------------------------
// Receivers that are allocated on the reconcile path
//
// A store through the method receiver writes state that outlives the reconcile only when the
// receiver does: the controllers, reconcilers and caches wired at start-up. A method of an object
// that every caller on a reconcile path allocates afresh (`inc := &includer{…}; f["include"] =
// inc.include`) writes memory that is as short-lived as a local variable captured by a closure —
// which is the shape such code has before the closure is turned into a method.

type c10Fresh struct {
	p     *Program
	s     *c10Scope
	bound map[*ssa.Function][]*ssa.MakeClosure // method -> closures that bind it as a method value
	dyn   map[*ssa.Function]string             // method -> other dynamic use (method expression)
	ifc   map[string]bool                      // named types converted to an interface somewhere
}

var c10FreshCache = map[*Program]*c10Fresh{}

func c10FreshOf(p *Program, s *c10Scope) *c10Fresh {
	if x := c10FreshCache[p]; x != nil {
		return x
	}
	x := &c10Fresh{p: p, s: s, bound: map[*ssa.Function][]*ssa.MakeClosure{}, dyn: map[*ssa.Function]string{}, ifc: map[string]bool{}}
	for _, f := range p.Funcs {
		for _, b := range f.Blocks {
			for _, in := range b.Instrs {
				if mi, ok := in.(*ssa.MakeInterface); ok {
					t := mi.X.Type()
					if pt, isP := t.Underlying().(*types.Pointer); isP {
						t = pt.Elem()
					}
					x.ifc[namedTypeString(t)] = true
				}
				var ops []*ssa.Value
				for _, o := range in.Operands(ops) {
					if o == nil || *o == nil {
						continue
					}
					g, ok := (*o).(*ssa.Function)
					if !ok || g.Synthetic == "" || strings.HasPrefix(g.Synthetic, "instance of") {
						continue
					}
					obj, isFn := g.Object().(*types.Func)
					if !isFn || obj == nil {
						continue
					}
					decl := p.SSA.FuncValue(obj)
					if decl == nil {
						continue
					}
					if mc, isMC := in.(*ssa.MakeClosure); isMC && mc.Fn == ssa.Value(g) && len(g.FreeVars) == 1 && len(mc.Bindings) == 1 {
						x.bound[decl] = append(x.bound[decl], mc)
					} else {
						x.dyn[decl] = "used as a method expression at " + p.IPos(in)
					}
				}
			}
		}
	}
	c10FreshCache[p] = x
	return x
}

func (x *c10Fresh) inScope(f *ssa.Function) bool {
	for ; f != nil; f = f.Parent() {
		if x.s.reach[f] {
			return true
		}
	}
	return false
}

// c10RecvWriteIsPathLocal: the write in fn goes through the receiver of the method that fn is (or is
// a function literal of), and that receiver is always an object allocated on the reconcile path.
func c10RecvWriteIsPathLocal(p *Program, s *c10Scope, fn *ssa.Function, root string, fields []stateField, throughRef bool) (bool, string) {
	if !strings.HasPrefix(root, "recv:") || len(fields) == 0 {
		return false, ""
	}
	m := fn
	for m.Parent() != nil {
		m = m.Parent()
	}
	if m.Signature.Recv() == nil || len(m.Params) == 0 || "recv:"+namedTypeString(m.Params[0].Type()) != root {
		return false, ""
	}
	x := c10FreshOf(p, s)
	ok, why := x.recvPathLocal(m)
	if !ok {
		return false, why
	}
	if throughRef {
		// the written memory is not part of the object itself but reached through the pointer, map
		// or slice held in its field: whatever is put into that field must be path-local as well
		if why2 := x.fieldHoldsState(fields[0]); why2 != "" {
			return false, why2
		}
		why += "; " + fields[0].Name + " only holds memory created on the path"
	}
	return true, why
}

// fieldHoldsState: some store into the field puts memory there that outlives the activation (a
// package-level variable, memory reached from another method's receiver), or cannot be judged.
// Returns "" when every store into the field is path-local.
func (x *c10Fresh) fieldHoldsState(f stateField) string {
	p := x.p
	n := 0
	for _, g := range p.productFuncs() {
		for _, b := range g.Blocks {
			for _, in := range b.Instrs {
				st, ok := in.(*ssa.Store)
				if !ok {
					continue
				}
				if namedTypeString(st.Val.Type()) == f.Owner {
					if _, isStruct := st.Val.Type().Underlying().(*types.Struct); isStruct {
						if _, isLoad := st.Val.(*ssa.UnOp); isLoad {
							return "a whole " + f.Owner + " is copied at " + p.IPos(st)
						}
					}
				}
				fa, ok := st.Addr.(*ssa.FieldAddr)
				if !ok || namedTypeString(fa.X.Type()) != f.Owner || fieldName(fa.X.Type(), fa.Field) != f.Name {
					continue
				}
				n++
				if why := x.valueIsState(st.Val, g, 0); why != "" {
					return "field " + f.Name + " is set to " + why + " at " + p.IPos(st)
				}
			}
		}
	}
	if n == 0 {
		return "no assignment of field " + f.Name + " of " + f.Owner + " found"
	}
	return ""
}

// valueIsState: v (a map, slice or pointer) denotes memory that outlives the activation of g.
func (x *c10Fresh) valueIsState(v ssa.Value, g *ssa.Function, depth int) string {
	p := x.p
	for _, pv := range p.possibleValues(stripConv(v)) {
		pv = stripConv(pv)
		if root, path, _ := stateRoot(g, pv, true); root != "" {
			return root + path
		}
		prm, isPrm := pv.(*ssa.Parameter)
		if !isPrm {
			continue
		}
		if depth > 2 || g.Parent() != nil || p.addressTaken(g) {
			return "a parameter of " + shortFuncID(g) + " that is not tracked"
		}
		idx := -1
		for i, q := range g.Params {
			if q == prm {
				idx = i
			}
		}
		for _, cl := range p.callersOf(g) {
			if idx < 0 || idx >= len(cl.Common.Args) {
				return "a parameter of " + shortFuncID(g) + " that is not tracked"
			}
			if why := x.valueIsState(cl.Common.Args[idx], cl.Fn, depth+1); why != "" {
				return why
			}
		}
	}
	return ""
}

// recvPathLocal: every receiver with which the method m is entered on a reconcile path is an object
// allocated within the reachable set that is not stored into longer-lived memory.
func (x *c10Fresh) recvPathLocal(m *ssa.Function) (bool, string) {
	if m.Signature.Recv() == nil || len(m.Params) == 0 {
		return false, "not a method"
	}
	if _, isPtr := m.Params[0].Type().Underlying().(*types.Pointer); !isPtr {
		return false, "value receiver"
	}
	return x.paramFresh(m, 0, 0, map[*ssa.Parameter]bool{})
}

// paramFresh: parameter idx of g is, at every entry on a reconcile path, a fresh path-local object.
func (x *c10Fresh) paramFresh(g *ssa.Function, idx, depth int, seen map[*ssa.Parameter]bool) (bool, string) {
	p := x.p
	if idx >= len(g.Params) {
		return false, "parameter not found"
	}
	prm := g.Params[idx]
	if seen[prm] {
		return true, "" // a cycle adds no new origin
	}
	seen[prm] = true
	if depth > 6 {
		return false, "call chain too deep"
	}
	if g.Parent() != nil {
		return false, shortFuncID(g) + " is a function literal: its arguments are not tracked"
	}
	if why, isDyn := x.dyn[g]; isDyn {
		return false, shortFuncID(g) + " is " + why
	}
	if g.Signature.Recv() != nil {
		t := g.Params[0].Type()
		if pt, isP := t.Underlying().(*types.Pointer); isP {
			t = pt.Elem()
		}
		if x.ifc[namedTypeString(t)] {
			return false, namedTypeString(t) + " is converted to an interface: " + shortFuncID(g) + " may be invoked on a value that is not tracked"
		}
	} else if p.addressTaken(g) {
		return false, shortFuncID(g) + " is used as a value"
	}
	n := 0
	var notes []string
	for _, cl := range p.callersOf(g) {
		if !x.inScope(cl.Fn) {
			continue // not on a reconcile path
		}
		if staticCallee(cl.Common) == nil || idx >= len(cl.Common.Args) {
			return false, "call at " + p.IPos(cl.Instr) + " is not understood"
		}
		n++
		ok, why := x.valueFresh(cl.Common.Args[idx], cl.Fn, depth+1, seen)
		if !ok {
			return false, why
		}
		notes = append(notes, why)
	}
	if idx == 0 {
		for _, mc := range x.bound[g] {
			if !x.inScope(mc.Parent()) {
				continue
			}
			n++
			ok, why := x.valueFresh(mc.Bindings[0], mc.Parent(), depth+1, seen)
			if !ok {
				return false, why
			}
			notes = append(notes, why)
		}
	}
	if n == 0 {
		return false, "no static use of " + shortFuncID(g) + " on a reconcile path was found"
	}
	return true, c10JoinNotes(notes)
}

func c10JoinNotes(notes []string) string {
	var out []string
	for _, n := range uniqStrings(notes) {
		if n != "" {
			out = append(out, n)
		}
	}
	return strings.Join(out, "; ")
}

// valueFresh: every value v can hold in g is a fresh path-local object.
func (x *c10Fresh) valueFresh(v ssa.Value, g *ssa.Function, depth int, seen map[*ssa.Parameter]bool) (bool, string) {
	p := x.p
	if depth > 6 {
		return false, "call chain too deep"
	}
	var notes []string
	for _, pv := range p.possibleValues(stripConv(v)) {
		pv = stripConv(pv)
		switch o := pv.(type) {
		case *ssa.Alloc:
			if !x.inScope(g) {
				return false, "allocated outside of the reconcile paths at " + p.Pos(o.Pos())
			}
			if why := x.escapesToState(o, g, 0); why != "" {
				return false, why
			}
			notes = append(notes, "allocated at "+p.Pos(o.Pos())+" in "+shortFuncID(g))
		case *ssa.Parameter:
			i := -1
			for k, q := range g.Params {
				if q == o {
					i = k
				}
			}
			ok, why := x.paramFresh(g, i, depth+1, seen)
			if !ok {
				return false, why
			}
			notes = append(notes, why)
		case *ssa.Call, *ssa.Extract:
			call, ri := asCall(pv)
			if call == nil {
				return false, "receiver may be " + p.describe(pv)
			}
			if ri < 0 {
				ri = 0
			}
			h := staticCallee(call.Common())
			if h == nil || !funcHasBody(h) || !p.isWorkspaceFunc(h) {
				return false, "receiver is the result of " + p.describe(call) + ", which is not a constructor of this repository"
			}
			if why := x.escapesToState(pv, g, 0); why != "" {
				return false, why
			}
			nret := 0
			for _, b := range h.Blocks {
				r, isRet := b.Instrs[len(b.Instrs)-1].(*ssa.Return)
				if !isRet || ri >= len(r.Results) || b == h.Recover {
					continue
				}
				if isNilConst(r.Results[ri]) {
					continue
				}
				nret++
				ok, why := x.valueFresh(p.resolveResult(r.Results[ri], r), h, depth+1, seen)
				if !ok {
					return false, why
				}
				notes = append(notes, why)
			}
			if nret == 0 {
				return false, "no result of " + shortFuncID(h) + " found"
			}
		default:
			if isNilConst(pv) {
				continue
			}
			return false, "receiver may be " + p.describe(pv) + " in " + shortFuncID(g)
		}
	}
	if len(notes) == 0 {
		return false, "no origin of " + p.describe(v) + " found"
	}
	return true, c10JoinNotes(notes)
}

// escapesToState: the pointer v (an allocation, a constructor result, a parameter) of g is stored
// into memory that outlives the activation: a package-level variable or memory reached from a
// method receiver. Returns "" when no such store is found.
func (x *c10Fresh) escapesToState(v ssa.Value, g *ssa.Function, depth int) string {
	p := x.p
	if depth > 3 {
		return ""
	}
	for _, r := range referrersOf(v) {
		switch in := r.(type) {
		case *ssa.Store:
			if in.Val != v {
				continue
			}
			if root, path, _ := stateRoot(g, in.Addr, false); root != "" {
				return "the object is stored into " + root + path + " at " + p.IPos(in)
			}
		case *ssa.MapUpdate:
			if in.Value != v && in.Key != v {
				continue
			}
			if root, path, _ := stateRoot(g, in.Map, true); root != "" {
				return "the object is stored into " + root + path + " at " + p.IPos(in)
			}
		case *ssa.MakeInterface, *ssa.ChangeType, *ssa.ChangeInterface, *ssa.Convert, *ssa.Phi:
			if why := x.escapesToState(in.(ssa.Value), g, depth+1); why != "" {
				return why
			}
		case ssa.CallInstruction:
			h := staticCallee(in.Common())
			if h == nil || !funcHasBody(h) || !p.isWorkspaceFunc(h) {
				continue
			}
			for i, a := range in.Common().Args {
				if a == v && i < len(h.Params) {
					if why := x.escapesToState(h.Params[i], h, depth+1); why != "" {
						return why
					}
				}
			}
		}
	}
	return ""
}
