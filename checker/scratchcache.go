package main

import (
	"fmt"
	"os"
	"os/exec"
	"os/signal"
	"path/filepath"
	"strings"
	"syscall"
)

// Scratch Go build cache.
//
// go/packages obtains export data through `go list -export`, which compiles every package whose
// source (or overlay) changed, together with its dependents, into the Go build cache: roughly
// 80-100 MB per analysed variant of the tree. The self-test of the thorough tier analyses several
// hundred variants, so it must not write into the user's cache. useScratchGoCache clones the
// current cache by hard links (cheap: ~7,000 files) into a temporary directory, points GOCACHE at
// the clone for this process and its children, and removes it again on exit.

var exitHooks []func()

func osExit(code int) {
	for i := len(exitHooks) - 1; i >= 0; i-- {
		exitHooks[i]()
	}
	os.Exit(code)
}

func useScratchGoCache(repoDir string) (cleanup func()) {
	noop := func() {}
	cmd := exec.Command("go", "env", "GOCACHE")
	cmd.Dir = repoDir
	cmd.Env = sanitizedEnv()
	out, err := cmd.Output()
	base := strings.TrimSpace(string(out))
	scratch, terr := os.MkdirTemp("", "pkocheck-gocache-")
	if terr != nil {
		return noop
	}
	target := filepath.Join(scratch, "cache")
	cloned := false
	if err == nil && base != "" && base != "off" {
		if _, serr := os.Stat(base); serr == nil {
			if exec.Command("cp", "-al", base, target).Run() == nil {
				cloned = true
			} else {
				os.RemoveAll(target)
			}
		}
	}
	if !cloned {
		if os.MkdirAll(target, 0o755) != nil {
			os.RemoveAll(scratch)
			return noop
		}
	}
	prev, had := os.LookupEnv("GOCACHE")
	os.Setenv("GOCACHE", target)
	done := false
	cleanup = func() {
		if done {
			return
		}
		done = true
		os.RemoveAll(scratch)
		if had {
			os.Setenv("GOCACHE", prev)
		} else {
			os.Unsetenv("GOCACHE")
		}
	}
	exitHooks = append(exitHooks, cleanup)
	sig := make(chan os.Signal, 1)
	signal.Notify(sig, syscall.SIGINT, syscall.SIGTERM)
	go func() {
		s := <-sig
		cleanup()
		fmt.Fprintf(os.Stderr, "interrupted (%v)\n", s)
		os.Exit(130)
	}()
	return cleanup
}
