package main

import (
	"golang.org/x/tools/go/ssa"
)

// Stale-read lint (A13): controller-runtime Get/Create/Update/Patch (and their Status() variants)
// decode the server's response into the object they are given, i.e. they refresh it in place.
// A metadata value (generation, resourceVersion, UID) read from object X *before* such a call on X
// and used *after* it describes the previous version of X. The lint reports every use of such a
// value that is reachable from the refreshing call.

var versionAccessors = map[string]bool{"GetGeneration": true, "GetResourceVersion": true, "GetUID": true}

type StaleUse struct {
	Read    *ssa.Call       // X.GetGeneration() ...
	Refresh ssa.Instruction // the client call that refreshes X
	Use     ssa.Instruction // an instruction using Read after Refresh
	Obj     ssa.Value
}

// refreshesObject: instruction is a client call that writes the server response into obj.
func (p *Program) refreshedObject(in ssa.Instruction) ssa.Value {
	ci, ok := in.(ssa.CallInstruction)
	if !ok {
		return nil
	}
	cc := ci.Common()
	if isReaderGet(cc) {
		return callArgs(cc)[2]
	}
	if _, isGo := in.(*ssa.Go); isGo {
		return nil
	}
	c := Call{Instr: ci, Common: cc, Fn: in.Parent()}
	if ws, ok := classifyWriter(c); ok && ws.Verb != "Delete" && ws.Verb != "DeleteAllOf" {
		return ws.Obj
	}
	return nil
}

// objectRoot reduces `acc.ClientObject()` to acc, so that an accessor wrapper and its client object
// are treated as the same object.
func (p *Program) objectRootKey(v ssa.Value) string {
	v = stripConv(v)
	if call, _ := asCall(v); call != nil && calleeName(call.Common()) == "ClientObject" {
		if r := callRecv(call.Common()); r != nil {
			return p.key(r)
		}
	}
	return p.key(v)
}

func (p *Program) staleUses(fn *ssa.Function) []StaleUse {
	var out []StaleUse
	type refresh struct {
		in  ssa.Instruction
		key string
		obj ssa.Value
	}
	var refreshes []refresh
	for _, b := range fn.Blocks {
		for _, in := range b.Instrs {
			if obj := p.refreshedObject(in); obj != nil {
				refreshes = append(refreshes, refresh{in, p.objectRootKey(obj), obj})
			}
		}
	}
	if len(refreshes) == 0 {
		return nil
	}
	for _, c := range callsIn(fn) {
		call, ok := c.Instr.(*ssa.Call)
		if !ok || !versionAccessors[calleeName(c.Common)] {
			continue
		}
		recv := callRecv(c.Common)
		if recv == nil {
			continue
		}
		rk := p.objectRootKey(recv)
		for _, rf := range refreshes {
			if rf.key != rk {
				continue
			}
			// the read must be able to precede the refresh ...
			precedes := false
			for _, in := range reachableAfter(call, nil) {
				if in == rf.in {
					precedes = true
					break
				}
			}
			if !precedes {
				continue
			}
			// ... and be used after it
			after := map[ssa.Instruction]bool{}
			for _, in := range reachableAfter(rf.in, nil) {
				after[in] = true
			}
			for _, use := range transitiveUses(call, 4) {
				if use == rf.in {
					continue
				}
				if !after[use] {
					continue
				}
				// a use inside a loop that can also precede the refresh on the same iteration is still
				// a use of a possibly stale value; but a use that is the refresh call's own argument
				// list construction is fine (handled by use == rf.in above for direct args).
				if feedsInstr(use, rf.in, 6) {
					continue // the value only flows into the refreshing call itself (e.g. patch precondition)
				}
				out = append(out, StaleUse{Read: call, Refresh: rf.in, Use: use, Obj: rf.obj})
			}
		}
	}
	return out
}

// transitiveUses returns instructions that use v directly or through conversions / phis / Extract
// / MakeInterface / BinOp-free forwarding (bounded).
func transitiveUses(v ssa.Value, depth int) []ssa.Instruction {
	var out []ssa.Instruction
	seen := map[ssa.Instruction]bool{}
	var walk func(v ssa.Value, d int)
	walk = func(v ssa.Value, d int) {
		for _, r := range referrersOf(v) {
			if seen[r] {
				continue
			}
			seen[r] = true
			if _, isDbg := r.(*ssa.DebugRef); isDbg {
				continue
			}
			out = append(out, r)
			if d <= 0 {
				continue
			}
			switch x := r.(type) {
			case *ssa.Phi:
				walk(x, d-1)
			case *ssa.MakeInterface:
				walk(x, d-1)
			case *ssa.ChangeType:
				walk(x, d-1)
			case *ssa.Convert:
				walk(x, d-1)
			case *ssa.Store:
				// spilled local: follow loads of the same alloc
				if a, ok := x.Addr.(*ssa.Alloc); ok {
					for _, rr := range referrersOf(a) {
						if u, ok := rr.(*ssa.UnOp); ok {
							if !seen[u] {
								seen[u] = true
								walk(u, d-1)
							}
						}
					}
				}
			}
		}
	}
	walk(v, depth)
	return out
}

// feedsInstr: does the value produced by `from` flow (through data dependencies only) into `to`?
func feedsInstr(from ssa.Instruction, to ssa.Instruction, depth int) bool {
	if from == to {
		return true
	}
	v, ok := from.(ssa.Value)
	if !ok || depth <= 0 {
		// stores into composite literal / map that later flows into `to`
		switch x := from.(type) {
		case *ssa.Store:
			if a := allocOf(x.Addr); a != nil {
				return feedsValue(a, to, depth-1)
			}
		case *ssa.MapUpdate:
			if mv, ok := x.Map.(ssa.Value); ok {
				return feedsValue(mv, to, depth-1)
			}
		}
		return false
	}
	return feedsValue(v, to, depth)
}

func feedsValue(v ssa.Value, to ssa.Instruction, depth int) bool {
	if depth <= 0 {
		return false
	}
	for _, r := range referrersOf(v) {
		if r == to {
			return true
		}
		if r.Block() == nil {
			continue
		}
		switch x := r.(type) {
		case ssa.Value:
			if feedsValue(x, to, depth-1) {
				return true
			}
		case *ssa.Store:
			if a := allocOf(x.Addr); a != nil && feedsValue(a, to, depth-1) {
				return true
			}
		case *ssa.MapUpdate:
			if feedsValue(x.Map, to, depth-1) {
				return true
			}
		}
	}
	return false
}
