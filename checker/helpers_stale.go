package main

import (
	"golang.org/x/tools/go/ssa"
)

// Stale-read lint (A13): controller-runtime Get/Create/Update/Patch (and their Status() variants)
// decode the server's response into the object they are given, i.e. they refresh it in place.
// A metadata value (generation, resourceVersion, UID) read from object X *before* such a call on X
// and used *after* it describes the previous version of X. The lint reports every use of such a
// value that is reachable from the refreshing call.

var versionAccessors = map[string]bool{"GetGeneration": true, "GetResourceVersion": true, "GetUID": true}

type StaleUse struct {
	Read    *ssa.Call       // X.GetGeneration() ...
	Refresh ssa.Instruction // the client call that refreshes X
	Use     ssa.Instruction // an instruction using Read after Refresh
	Obj     ssa.Value
}

// refreshesObject: instruction is a client call that writes the server response into obj.
func (p *Program) refreshedObject(in ssa.Instruction) ssa.Value {
	ci, ok := in.(ssa.CallInstruction)
	if !ok {
		return nil
	}
	cc := ci.Common()
	if isReaderGet(cc) {
		return callArgs(cc)[2]
	}
	if _, isGo := in.(*ssa.Go); isGo {
		return nil
	}
	c := Call{Instr: ci, Common: cc, Fn: in.Parent()}
	if ws, ok := classifyWriter(c); ok && ws.Verb != "Delete" && ws.Verb != "DeleteAllOf" {
		return ws.Obj
	}
	return nil
}

// objectRoot reduces `acc.ClientObject()` to acc, so that an accessor wrapper and its client object
// are treated as the same object.
func (p *Program) objectRootKey(v ssa.Value) string {
	v = stripConv(v)
	if call, _ := asCall(v); call != nil && calleeName(call.Common()) == "ClientObject" {
		if r := callRecv(call.Common()); r != nil {
			return p.key(r)
		}
	}
	return p.key(v)
}

func (p *Program) staleUses(fn *ssa.Function) []StaleUse {
	var out []StaleUse
	type refresh struct {
		in  ssa.Instruction
		key string
		obj ssa.Value
	}
	var refreshes []refresh
	for _, b := range fn.Blocks {
		for _, in := range b.Instrs {
			if obj := p.refreshedObject(in); obj != nil {
				refreshes = append(refreshes, refresh{in, p.objectRootKey(obj), obj})
			}
		}
	}
	if len(refreshes) == 0 {
		return nil
	}
	for _, c := range callsIn(fn) {
		call, ok := c.Instr.(*ssa.Call)
		if !ok || !versionAccessors[calleeName(c.Common)] {
			continue
		}
		recv := callRecv(c.Common)
		if recv == nil {
			continue
		}
		rk := p.objectRootKey(recv)
		for _, rf := range refreshes {
			if rf.key != rk {
				continue
			}
			// the read must be able to precede the refresh ...
			precedes := false
			for _, in := range reachableAfter(call, nil) {
				if in == rf.in {
					precedes = true
					break
				}
			}
			if !precedes {
				continue
			}
			// ... and be used after it
			after := map[ssa.Instruction]bool{}
			for _, in := range reachableAfter(rf.in, nil) {
				after[in] = true
			}
			for _, use := range transitiveUses(call, 4) {
				if use == rf.in {
					continue
				}
				if !after[use] {
					continue
				}
				// a use inside a loop that can also precede the refresh on the same iteration is still
				// a use of a possibly stale value; but a use that is the refresh call's own argument
				// list construction is fine (handled by use == rf.in above for direct args).
				if feedsInstr(use, rf.in, 6) {
					continue // the value only flows into the refreshing call itself (e.g. patch precondition)
				}
				out = append(out, StaleUse{Read: call, Refresh: rf.in, Use: use, Obj: rf.obj})
			}
		}
	}
	return out
}

// transitiveUses returns instructions that use v directly or through conversions / phis / Extract
// / MakeInterface / BinOp-free forwarding (bounded).
func transitiveUses(v ssa.Value, depth int) []ssa.Instruction {
	var out []ssa.Instruction
	seen := map[ssa.Instruction]bool{}
	var walk func(v ssa.Value, d int)
	walk = func(v ssa.Value, d int) {
		for _, r := range referrersOf(v) {
			if seen[r] {
				continue
			}
			seen[r] = true
			if _, isDbg := r.(*ssa.DebugRef); isDbg {
				continue
			}
			out = append(out, r)
			if d <= 0 {
				continue
			}
			switch x := r.(type) {
			case *ssa.Phi:
				walk(x, d-1)
			case *ssa.MakeInterface:
				walk(x, d-1)
			case *ssa.ChangeType:
				walk(x, d-1)
			case *ssa.Convert:
				walk(x, d-1)
			case *ssa.Store:
				// spilled local: follow loads of the same alloc
				if a, ok := x.Addr.(*ssa.Alloc); ok {
					for _, rr := range referrersOf(a) {
						if u, ok := rr.(*ssa.UnOp); ok {
							if !seen[u] {
								seen[u] = true
								walk(u, d-1)
							}
						}
					}
				}
			}
		}
	}
	walk(v, depth)
	return out
}

// feedsInstr: does the value produced by `from` flow (through data dependencies only) into `to`?
func feedsInstr(from ssa.Instruction, to ssa.Instruction, depth int) bool {
	if from == to {
		return true
	}
	v, ok := from.(ssa.Value)
	if !ok || depth <= 0 {
		// stores into composite literal / map that later flows into `to`
		switch x := from.(type) {
		case *ssa.Store:
			if a := allocOf(x.Addr); a != nil {
				return feedsValue(a, to, depth-1)
			}
		case *ssa.MapUpdate:
			if mv, ok := x.Map.(ssa.Value); ok {
				return feedsValue(mv, to, depth-1)
			}
		}
		return false
	}
	return feedsValue(v, to, depth)
}

func feedsValue(v ssa.Value, to ssa.Instruction, depth int) bool {
	if depth <= 0 {
		return false
	}
	for _, r := range referrersOf(v) {
		if r == to {
			return true
		}
		if r.Block() == nil {
			continue
		}
		switch x := r.(type) {
		case ssa.Value:
			if feedsValue(x, to, depth-1) {
				return true
			}
		case *ssa.Store:
			if a := allocOf(x.Addr); a != nil && feedsValue(a, to, depth-1) {
				return true
			}
		case *ssa.MapUpdate:
			if feedsValue(x.Map, to, depth-1) {
				return true
			}
		}
	}
	return false
}

// ---------------------------------------------------------------------------------------------
// Lost-update lint: Set*(X) ... refresh(X) ... write(X) with no Set* of the same kind after the
// refresh: the value set before the refresh is overwritten by the server's copy and the write
// persists the old state. Closures handed to retry helpers (retry.RetryOnConflict,
// wait.ExponentialBackoff, ...) are treated as loops: a refresh anywhere in the closure may precede a
// write anywhere in the closure, and setters executed in the parent before the closure was created
// precede everything in it.

type LostUpdate struct {
	Set     ssa.Instruction
	Refresh ssa.Instruction
	Write   ssa.Instruction
	Setter  string
}

func isRetryHelper(cc *ssa.CallCommon) bool {
	id := calleeID(cc)
	switch id {
	case "k8s.io/client-go/util/retry.RetryOnConflict", "k8s.io/client-go/util/retry.OnError",
		"k8s.io/apimachinery/pkg/util/wait.ExponentialBackoff", "k8s.io/apimachinery/pkg/util/wait.ExponentialBackoffWithContext",
		"k8s.io/apimachinery/pkg/util/wait.PollUntilContextTimeout", "k8s.io/apimachinery/pkg/util/wait.PollUntilContextCancel":
		return true
	}
	return false
}

// retryClosures returns closures of fn that are passed to a retry helper, with the call site.
func retryClosures(fn *ssa.Function) map[*ssa.Function]ssa.Instruction {
	out := map[*ssa.Function]ssa.Instruction{}
	for _, c := range callsIn(fn) {
		if !isRetryHelper(c.Common) {
			continue
		}
		for _, a := range c.Common.Args {
			if mc, ok := stripConv(a).(*ssa.MakeClosure); ok {
				if f, ok := mc.Fn.(*ssa.Function); ok {
					out[f] = c.Instr
				}
			}
		}
	}
	return out
}

// closureKey maps a value inside a closure to the key it has in the parent (free variables are
// bound to parent values), so that objects can be matched across the closure boundary.
func (p *Program) parentKey(v ssa.Value, closure *ssa.Function) string {
	k := p.objectRootKey(v)
	return k
}

func (p *Program) setterOn(in ssa.Instruction) (obj ssa.Value, name string, ok bool) {
	ci, isCall := in.(ssa.CallInstruction)
	if !isCall {
		return nil, "", false
	}
	cc := ci.Common()
	n := calleeName(cc)
	if len(n) < 4 || n[:3] != "Set" {
		return nil, "", false
	}
	r := callRecv(cc)
	if r == nil {
		return nil, "", false
	}
	return r, n, true
}

// lostUpdates analyses fn together with its retry closures.
func (p *Program) lostUpdates(fn *ssa.Function) []LostUpdate {
	var out []LostUpdate
	// straight-line part
	out = append(out, p.lostUpdatesIn(fn, nil)...)
	for cl, site := range retryClosures(fn) {
		out = append(out, p.lostUpdatesIn(cl, site)...)
	}
	return out
}

// freeVarBinding resolves a FreeVar of closure cl to the value bound in the parent.
func freeVarBinding(cl *ssa.Function, fv *ssa.FreeVar) ssa.Value {
	parent := cl.Parent()
	if parent == nil {
		return nil
	}
	idx := -1
	for i, f := range cl.FreeVars {
		if f == fv {
			idx = i
		}
	}
	if idx < 0 {
		return nil
	}
	for _, b := range parent.Blocks {
		for _, in := range b.Instrs {
			if mc, ok := in.(*ssa.MakeClosure); ok && mc.Fn == ssa.Value(cl) && idx < len(mc.Bindings) {
				return mc.Bindings[idx]
			}
		}
	}
	return nil
}

// crossKey: key of an object value that is comparable between a closure and its parent: free
// variables (captured by reference: *freevar) are replaced by the parent's alloc and, when that
// alloc has a single store, by the stored value's key.
func (p *Program) crossKey(v ssa.Value, fn *ssa.Function) string {
	v = stripConv(v)
	if call, _ := asCall(v); call != nil && calleeName(call.Common()) == "ClientObject" {
		if r := callRecv(call.Common()); r != nil {
			return p.crossKey(r, fn)
		}
	}
	if u, ok := v.(*ssa.UnOp); ok {
		if fv, ok := u.X.(*ssa.FreeVar); ok {
			if b := freeVarBinding(fn, fv); b != nil {
				if a, ok := b.(*ssa.Alloc); ok {
					return "var:" + a.Parent().Name() + ":" + a.Name()
				}
				return p.key(b)
			}
		}
		if a, ok := u.X.(*ssa.Alloc); ok {
			return "var:" + a.Parent().Name() + ":" + a.Name()
		}
	}
	return p.key(v)
}

func (p *Program) lostUpdatesIn(fn *ssa.Function, retrySite ssa.Instruction) []LostUpdate {
	var out []LostUpdate
	type ev struct {
		in  ssa.Instruction
		key string
		set string
	}
	var sets, refreshes, writes []ev
	scan := func(f *ssa.Function, only func(ssa.Instruction) bool) {
		for _, b := range f.Blocks {
			for _, in := range b.Instrs {
				if only != nil && !only(in) {
					continue
				}
				if obj, n, ok := p.setterOn(in); ok {
					sets = append(sets, ev{in, p.crossKey(obj, f), n})
				}
				if obj := p.refreshedObject(in); obj != nil {
					ci := in.(ssa.CallInstruction)
					if isReaderGet(ci.Common()) {
						refreshes = append(refreshes, ev{in, p.crossKey(obj, f), ""})
					}
					c := Call{Instr: ci, Common: ci.Common(), Fn: f}
					if ws, ok := classifyWriter(c); ok && (ws.Verb == "Update" || ws.Verb == "Status.Update" || ws.Verb == "Patch") {
						writes = append(writes, ev{in, p.crossKey(ws.Obj, f), ""})
					}
				}
			}
		}
	}
	scan(fn, nil)
	if retrySite == nil {
		for _, w := range writes {
			for _, r := range refreshes {
				if r.key != w.key {
					continue
				}
				// refresh can precede write
				if !canPrecede(r.in, w.in) {
					continue
				}
				for _, s := range sets {
					if s.key != w.key || !canPrecede(s.in, r.in) {
						continue
					}
					// is there a later set of the same name between refresh and write on every path?
					if p.mustPassBetween(r.in, w.in, func(in ssa.Instruction) bool {
						o, n, ok := p.setterOn(in)
						return ok && n == s.set && p.crossKey(o, fn) == w.key
					}) {
						continue
					}
					out = append(out, LostUpdate{Set: s.in, Refresh: r.in, Write: w.in, Setter: s.set})
				}
			}
		}
		return out
	}
	// retry closure: refresh anywhere in the closure may precede any write in it (next attempt).
	parent := fn.Parent()
	var parentSets []ev
	for _, b := range parent.Blocks {
		for _, in := range b.Instrs {
			if obj, n, ok := p.setterOn(in); ok && canPrecede(in, retrySite) {
				parentSets = append(parentSets, ev{in, p.crossKey(obj, parent), n})
			}
		}
	}
	for _, w := range writes {
		for _, r := range refreshes {
			if r.key != w.key {
				continue
			}
			// setters in the closure that dominate the write re-establish the value on every attempt
			for _, s := range parentSets {
				if s.key != w.key {
					continue
				}
				reSet := p.mustPrecede(w.in, func(in ssa.Instruction) bool {
					o, n, ok := p.setterOn(in)
					return ok && n == s.set && p.crossKey(o, fn) == w.key
				})
				if reSet {
					continue
				}
				out = append(out, LostUpdate{Set: s.in, Refresh: r.in, Write: w.in, Setter: s.set})
			}
		}
	}
	return out
}

func canPrecede(a, b ssa.Instruction) bool {
	if a.Parent() != b.Parent() {
		return false
	}
	for _, in := range reachableAfter(a, nil) {
		if in == b {
			return true
		}
	}
	return false
}

// mustPassBetween: every path from a to b passes an instruction satisfying match.
func (p *Program) mustPassBetween(a, b ssa.Instruction, match func(ssa.Instruction) bool) bool {
	// explore from a without crossing matching instructions; if b is reachable, some path avoids them
	for _, in := range reachableAfter(a, match) {
		if in == b {
			return false
		}
	}
	return true
}
