package main

import (
	"go/types"
	"strings"

	"golang.org/x/tools/go/ssa"
)

// Lost-mutation lint (A15): a method declared on a *value* receiver that writes to the receiver
// (stores into one of its fields, or calls a pointer-receiver method of the same type on its address
// that does so) modifies a copy; unless the method returns the receiver type, the write is lost.
// This is how `func (p recordingProbe) RecordMissingObject(...)` silently drops a recorded failure.

type LostMutation struct {
	Fn   *ssa.Function
	At   ssa.Instruction
	What string
}

// writesThroughReceiver: does fn (a pointer-receiver method or any function taking *T as first
// argument) store into fields reachable from its first parameter? (bounded depth)
func (p *Program) writesThroughFirstParam(fn *ssa.Function, depth int) bool {
	if fn == nil || len(fn.Params) == 0 || len(fn.Blocks) == 0 || depth > 3 {
		return false
	}
	recv := fn.Params[0]
	for _, b := range fn.Blocks {
		for _, in := range b.Instrs {
			switch x := in.(type) {
			case *ssa.Store:
				if a := rootOfAddr(x.Addr); a == ssa.Value(recv) {
					return true
				}
			case *ssa.MapUpdate:
				if rootOfAddr(x.Map) == ssa.Value(recv) {
					return true
				}
			case ssa.CallInstruction:
				cc := x.Common()
				if callee := staticCallee(cc); callee != nil && len(cc.Args) > 0 && cc.Args[0] == ssa.Value(recv) && callee != fn {
					if p.writesThroughFirstParam(callee, depth+1) {
						return true
					}
				}
			}
		}
	}
	return false
}

// rootOfAddr strips FieldAddr/IndexAddr/loads of pointer fields down to the base value.
func rootOfAddr(v ssa.Value) ssa.Value {
	for i := 0; i < 8; i++ {
		switch x := v.(type) {
		case *ssa.FieldAddr:
			v = x.X
		case *ssa.IndexAddr:
			v = x.X
		default:
			return v
		}
	}
	return v
}

func (p *Program) lostMutations(fns []*ssa.Function) []LostMutation {
	var out []LostMutation
	for _, fn := range fns {
		if fn.Parent() != nil || fn.Signature.Recv() == nil || len(fn.Params) == 0 || len(fn.Blocks) == 0 {
			continue
		}
		rt := fn.Signature.Recv().Type()
		if _, isPtr := rt.Underlying().(*types.Pointer); isPtr {
			continue
		}
		if _, isStruct := rt.Underlying().(*types.Struct); !isStruct {
			continue // maps/slices/funcs share their backing store
		}
		// returns the receiver type? then the modified copy may be handed back (builder style)
		returnsRecv := false
		for i := 0; i < fn.Signature.Results().Len(); i++ {
			if types.Identical(fn.Signature.Results().At(i).Type(), rt) {
				returnsRecv = true
			}
		}
		if returnsRecv {
			continue
		}
		recv := fn.Params[0]
		// the receiver is spilled to an Alloc when its address is needed
		var allocs []ssa.Value
		for _, r := range referrersOf(recv) {
			if st, ok := r.(*ssa.Store); ok && st.Val == ssa.Value(recv) {
				if a, ok := st.Addr.(*ssa.Alloc); ok {
					allocs = append(allocs, a)
				}
			}
		}
		for _, a := range allocs {
			for _, b := range fn.Blocks {
				for _, in := range b.Instrs {
					switch x := in.(type) {
					case *ssa.Store:
						if x.Addr != a && rootOfAddr(x.Addr) == a && !readAfter(a, in) {
							out = append(out, LostMutation{fn, in, "stores into a field of the receiver copy"})
						}
					case ssa.CallInstruction:
						cc := x.Common()
						if callee := staticCallee(cc); callee != nil && len(cc.Args) > 0 && cc.Args[0] == a && !readAfter(a, in) {
							if p.writesThroughFirstParam(callee, 0) {
								out = append(out, LostMutation{fn, in, "calls " + strings.TrimPrefix(callee.String(), modPKO+"/") + " on the address of the receiver copy, which writes through it"})
							}
						}
					}
				}
			}
		}
	}
	return out
}

func lostMutationRule(scope ...string) func(c *Ctx) {
	return func(c *Ctx) {
		p := c.P
		var fns []*ssa.Function
		methods := 0
		for _, fn := range p.productFuncs() {
			in := false
			for _, s := range scope {
				if strings.HasPrefix(funcPkgPath(fn), s) {
					in = true
				}
			}
			if !in {
				continue
			}
			fns = append(fns, fn)
			if fn.Signature.Recv() != nil && fn.Parent() == nil {
				if _, isPtr := fn.Signature.Recv().Type().Underlying().(*types.Pointer); !isPtr {
					methods++
				}
			}
		}
		hits := p.lostMutations(fns)
		for _, h := range hits {
			c.Ob(h.Fn, "value-receiver-write", h.At, c.rule.Statement).Fail("method on a value receiver %s: the modification is made to a copy and lost when the method returns (declare the method on the pointer receiver)", h.What)
		}
		o := c.Ob(nil, "value-receiver-methods-scanned", nil, c.rule.Statement)
		if methods == 0 {
			o.Fail("reason=anchor-lost: no value-receiver methods found in scope")
		} else {
			o.OK(itoa(methods) + " value-receiver methods scanned, " + itoa(len(hits)) + " write to their copy")
		}
	}
}

const lostMutationStatement = "no method declared on a value (struct) receiver writes to that receiver without returning it: the write would be made to a copy and silently lost"

// readAfter: is the receiver copy (or one of its fields) read, or its address used, after `at`?
// (local defaulting such as `if v.Reason == "" { v.Reason = unknown }; msg := v.Reason` is fine.)
func readAfter(a ssa.Value, at ssa.Instruction) bool {
	for _, in := range reachableAfter(at, nil) {
		switch x := in.(type) {
		case *ssa.UnOp:
			if rootOfAddr(x.X) == a {
				return true
			}
		case ssa.CallInstruction:
			for _, arg := range x.Common().Args {
				if rootOfAddr(arg) == a {
					return true
				}
			}
		}
	}
	return false
}
