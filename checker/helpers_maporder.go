package main

import (
	"fmt"
	"go/token"
	"go/types"
	"strings"

	"golang.org/x/tools/go/ssa"
)

// A9 — map-iteration-order lint.
//
// Every `range` over a Go map (ssa.Range with a map operand + ssa.Next) is classified by the
// effects of its loop body that survive an iteration:
//
//   designed / order-insensitive
//     * map writes keyed by the iteration key, or storing a constant (set insert);
//     * rewrite / delete of the *current* entry of the ranged map (allowed by the Go spec);
//     * counters (x += …), constant flags;
//     * slices collected by append / indexed store that are passed to sort.* / slices.Sort*
//       before any other use after the loop;
//     * collected []error that only feeds errors.Join (which error is reported, nothing rendered);
//     * early exit only by returning a non-nil error with constant other results;
//     * calls that write only to iteration-local memory.
//   order-sensitive (violation)
//     * insert into / delete of another key of the ranged map;
//     * a collected slice that escapes unsorted;
//     * writes to a shared io.Writer / hash / builder in visiting order;
//     * early exit with iteration-dependent results.
//   anything else is *unknown* (fails the check; the shape has to be reviewed and added).

type mapRange struct {
	Fn    *ssa.Function
	Range *ssa.Range
	Next  *ssa.Next
	Head  *ssa.BasicBlock
	Body  map[*ssa.BasicBlock]bool // natural loop incl. head
	Key   ssa.Value                // extract #1 (nil if unused)
	Val   ssa.Value                // extract #2 (nil if unused)
}

type orderProblem struct {
	Kind    string // stable construct tag, e.g. "range-insert"
	Unknown bool   // true: cannot be classified; false: definitely order-sensitive
	Detail  string
	At      ssa.Instruction
}

// mapRangesIn lists the range-over-map loops of fn in block order.
func mapRangesIn(fn *ssa.Function) []*mapRange {
	var out []*mapRange
	var loops []*Loop
	for _, b := range fn.Blocks {
		for _, in := range b.Instrs {
			r, ok := in.(*ssa.Range)
			if !ok {
				continue
			}
			if _, isMap := r.X.Type().Underlying().(*types.Map); !isMap {
				continue
			}
			mr := &mapRange{Fn: fn, Range: r}
			for _, ref := range referrersOf(r) {
				if n, ok := ref.(*ssa.Next); ok {
					mr.Next = n
				}
			}
			if mr.Next == nil {
				continue
			}
			mr.Head = mr.Next.Block()
			for _, ref := range referrersOf(mr.Next) {
				if e, ok := ref.(*ssa.Extract); ok {
					switch e.Index {
					case 1:
						mr.Key = e
					case 2:
						mr.Val = e
					}
				}
			}
			if loops == nil {
				loops = loopsOf(fn)
			}
			for _, l := range loops {
				if l.Head == mr.Head {
					mr.Body = l.Body
				}
			}
			if mr.Body == nil {
				// no back edge: the body always leaves the loop. Body = blocks dominated by the
				// "ok" successor of the header.
				mr.Body = map[*ssa.BasicBlock]bool{mr.Head: true}
				if len(mr.Head.Succs) == 2 {
					first := mr.Head.Succs[0]
					for _, bb := range fn.Blocks {
						if first.Dominates(bb) {
							mr.Body[bb] = true
						}
					}
				}
			}
			out = append(out, mr)
		}
	}
	return out
}

// normalExit is the successor taken when the iteration is exhausted.
func (mr *mapRange) normalExit() *ssa.BasicBlock {
	if mr.Head != nil && len(mr.Head.Succs) == 2 {
		return mr.Head.Succs[1]
	}
	return nil
}

func (mr *mapRange) inBody(in ssa.Instruction) bool {
	return in.Block() != nil && mr.Body[in.Block()] && in.Parent() == mr.Fn
}

// ---------------------------------------------------------------------------------------------
// Locality: is a value private to one iteration (or one callee activation)?

type locFrame struct {
	fn     *ssa.Function
	inBody func(ssa.Instruction) bool
	params map[*ssa.Parameter]bool // callee frames: parameter bound to an iteration-local argument
	free   map[*ssa.FreeVar]bool
	extra  map[ssa.Value]bool // loop key / value of the ranged map
	memo   map[ssa.Value]int  // 1 local, 2 shared, 3 in progress
}

func (f *locFrame) local(v ssa.Value) bool {
	if v == nil {
		return true
	}
	if st, ok := f.memo[v]; ok {
		return st == 1 || st == 3 // cycles through phis: optimistic, other edges decide
	}
	f.memo[v] = 3
	r := f.localUncached(v)
	if r {
		f.memo[v] = 1
	} else {
		f.memo[v] = 2
	}
	return r
}

func (f *locFrame) localUncached(v ssa.Value) bool {
	if f.extra[v] {
		return true
	}
	switch x := v.(type) {
	case *ssa.Const:
		return true
	case *ssa.Function, *ssa.Builtin:
		return true
	case *ssa.Parameter:
		return f.params[x]
	case *ssa.FreeVar:
		return f.free[x]
	case *ssa.Global:
		return false
	}
	in, isInstr := v.(ssa.Instruction)
	if !isInstr || !f.inBody(in) {
		return false
	}
	switch x := v.(type) {
	case *ssa.Alloc, *ssa.MakeMap, *ssa.MakeSlice, *ssa.MakeChan:
		return true
	case *ssa.Call:
		return true // a call result computed in this iteration (fresh-result assumption, see trusted base)
	case *ssa.MakeClosure:
		for _, b := range x.Bindings {
			if !f.local(b) {
				return false
			}
		}
		return true
	case *ssa.Extract:
		return f.local(x.Tuple)
	case *ssa.Next:
		return true
	case *ssa.FieldAddr:
		return f.local(x.X)
	case *ssa.IndexAddr:
		return f.local(x.X)
	case *ssa.Field:
		return f.local(x.X)
	case *ssa.Index:
		return f.local(x.X)
	case *ssa.Lookup:
		return f.local(x.X) || isValueType(x.Type())
	case *ssa.Slice:
		return f.local(x.X)
	case *ssa.UnOp:
		if x.Op == token.MUL {
			return f.local(x.X) || isValueType(x.Type())
		}
		return true
	case *ssa.BinOp:
		return true
	case *ssa.Convert:
		return true // conversions that allocate ([]byte(s), string(b)) or are scalar
	case *ssa.ChangeType:
		return f.local(x.X)
	case *ssa.MakeInterface:
		return f.local(x.X) || isValueType(x.X.Type())
	case *ssa.ChangeInterface:
		return f.local(x.X)
	case *ssa.TypeAssert:
		return f.local(x.X)
	case *ssa.Phi:
		for _, e := range x.Edges {
			if !f.local(e) {
				return false
			}
		}
		return true
	case *ssa.Range:
		return true
	}
	return false
}

// isValueType: values of this type carry no reference to shared mutable memory.
func isValueType(t types.Type) bool {
	switch u := t.Underlying().(type) {
	case *types.Basic:
		return true
	case *types.Struct:
		for i := 0; i < u.NumFields(); i++ {
			if !isValueType(u.Field(i).Type()) {
				return false
			}
		}
		return true
	case *types.Array:
		return isValueType(u.Elem())
	case *types.Tuple:
		for i := 0; i < u.Len(); i++ {
			if !isValueType(u.At(i).Type()) {
				return false
			}
		}
		return true
	}
	return false
}

// immutableRefType: reference-like types whose values are not mutated through calls
// (contexts, loggers).
func immutableRefType(t types.Type) bool {
	switch namedTypeString(t) {
	case "context.Context", "github.com/go-logr/logr.Logger", "reflect.Type", "regexp.Regexp":
		return true
	}
	return false
}

// ---------------------------------------------------------------------------------------------
// Call classification tables

// writerArg: callees that write, in call order, to the io.Writer given as argument i.
var orderedSinkWriterArg = map[string]int{
	"(*text/template.Template).ExecuteTemplate": 0,
	"(*text/template.Template).Execute":         0,
	"(*html/template.Template).ExecuteTemplate": 0,
	"(*html/template.Template).Execute":         0,
	"fmt.Fprintf":                               0,
	"fmt.Fprint":                                0,
	"fmt.Fprintln":                              0,
	"io.WriteString":                            0,
	"io.Copy":                                   0,
	"encoding/binary.Write":                     0,
}

// orderedSinkMethod: methods that append to their receiver in call order.
func orderedSinkMethod(name string) bool {
	switch name {
	case "Write", "WriteString", "WriteByte", "WriteRune", "WriteTo", "Sum", "Encode":
		return true
	}
	return false
}

// mutatorName: callee names that, by the conventions of the libraries used in /repo, modify their
// receiver / first pointer argument. Any other external callee is taken to only read shared
// arguments (trusted base, listed in the evidence).
func mutatorName(n string) bool {
	if strings.HasSuffix(n, "String") || strings.HasSuffix(n, "Bytes") {
		return false // DecodeString, AppendString … return fresh values
	}
	for _, pfx := range []string{"Set", "Add", "Remove", "Delete", "Append", "Push", "Insert", "Register", "Store", "Put", "Reset",
		"Parse", "Funcs", "Option", "New", "Unmarshal", "Decode", "Sort", "Merge", "Swap", "Inc", "Dec", "Observe", "Record", "Update", "Create", "Patch", "Apply", "Lock", "Unlock", "Start", "Stop", "Close", "Send"} {
		if strings.HasPrefix(n, pfx) {
			return true
		}
	}
	return false
}

// reviewedSharedMutations: calls that mutate shared state inside a map-range loop and were
// reviewed to commute across iterations. Keyed by callee id.
var reviewedSharedMutations = map[string]string{
	"(*text/template.Template).New": "associates a new, empty template named by the (distinct) iteration key with the shared set; " +
		"commutes as long as template names are defined at most once (assumption stated in the property's quantifier)",
	"(*text/template.Template).Parse": "defines the templates of one file; commutes under the same at-most-once assumption",
}

// pureExternal: external non-method functions that are mutator-named but return fresh values.
var pureExternal = map[string]bool{
	"k8s.io/apimachinery/pkg/labels.Merge":                  true,
	"errors.New":                                            true,
	"k8s.io/apimachinery/pkg/labels.NewSelector":            true,
	"k8s.io/apimachinery/pkg/util/validation/field.NewPath": true,
	"strings.NewReader":                                     true,
	"strings.NewReplacer":                                   true,
	"bytes.NewReader":                                       true,
	"bytes.NewBuffer":                                       true,
	"bytes.NewBufferString":                                 true,
	"fmt.Sprintf":                                           true,
	"github.com/google/cel-go/cel.NewEnv":                   true,
	"sigs.k8s.io/controller-runtime/pkg/client.ObjectKeyFromObject": true,
}

// ---------------------------------------------------------------------------------------------
// The effect scanner (shared by the loop body and by followed callees)

type orderScan struct {
	p     *Program
	probs []orderProblem
	notes []string
	seen  map[*ssa.Function]bool
}

func (s *orderScan) problem(kind string, unknown bool, at ssa.Instruction, format string, a ...any) {
	s.probs = append(s.probs, orderProblem{Kind: kind, Unknown: unknown, At: at, Detail: fmt.Sprintf(format, a...) + " at " + s.p.IPos(at)})
}

func (s *orderScan) note(format string, a ...any) {
	n := fmt.Sprintf(format, a...)
	for _, x := range s.notes {
		if x == n {
			return
		}
	}
	s.notes = append(s.notes, n)
}

// sharedRefOperands returns the operands of a call that refer to memory shared between
// iterations.
func (s *orderScan) sharedRefOperands(f *locFrame, cc *ssa.CallCommon) []ssa.Value {
	var out []ssa.Value
	var cands []ssa.Value
	if cc.IsInvoke() {
		cands = append(cands, cc.Value)
	}
	cands = append(cands, cc.Args...)
	if mc, ok := cc.Value.(*ssa.MakeClosure); ok {
		cands = append(cands, mc.Bindings...)
	}
	for _, a := range cands {
		if a == nil || isValueType(a.Type()) || immutableRefType(a.Type()) {
			continue
		}
		if _, isFn := a.(*ssa.Function); isFn {
			continue
		}
		if !f.local(a) {
			out = append(out, a)
		}
	}
	return out
}

// scanCall classifies one call instruction inside a loop body / followed callee.
func (s *orderScan) scanCall(f *locFrame, ci ssa.CallInstruction, depth int) {
	cc := ci.Common()
	if _, isGo := ci.(*ssa.Go); isGo {
		s.problem("go-in-loop", true, ci, "goroutine started inside a map-range loop")
		return
	}
	if b, ok := cc.Value.(*ssa.Builtin); ok {
		switch b.Name() {
		case "len", "cap", "append", "delete", "copy", "panic", "print", "println", "min", "max", "recover", "real", "imag", "complex", "clear",
			"ssa:wrapnilchk":
			// append/delete/copy are handled by the caller (top level) or below (callee frames)
			if b.Name() == "copy" && len(cc.Args) == 2 && !f.local(cc.Args[0]) {
				s.problem("shared-copy", true, ci, "copy into a slice shared between iterations")
			}
			if b.Name() == "clear" && len(cc.Args) == 1 && !f.local(cc.Args[0]) {
				s.problem("shared-clear", true, ci, "clear of a map/slice shared between iterations")
			}
		}
		return
	}
	id := calleeID(cc)
	name := calleeName(cc)
	shared := s.sharedRefOperands(f, cc)

	// ordered sinks: definite order dependence when the sink is shared
	if idx, ok := orderedSinkWriterArg[id]; ok {
		args := callArgs(cc)
		if idx < len(args) && !f.local(args[idx]) {
			s.problem("ordered-sink", false, ci, "%s writes to a writer shared between iterations (%s) in map order", name, s.p.describe(args[idx]))
		} else {
			s.note("%s writes to an iteration-local buffer", name)
		}
		return
	}
	if recv := callRecv(cc); recv != nil && orderedSinkMethod(name) && !f.local(recv) && !isValueType(recv.Type()) {
		s.problem("ordered-sink", false, ci, "%s on %s, which is shared between iterations: output depends on map order", name, s.p.describe(recv))
		return
	}

	// callee with a body: follow (bounded)
	callees, resolved := s.calleesOf(cc)
	if resolved {
		for _, g := range callees {
			if !funcHasBody(g) || !s.p.isWorkspaceFunc(g) {
				s.externalCall(f, ci, g.String(), g.Name(), shared)
				continue
			}
			if len(shared) == 0 && !s.mayTouchGlobals(g) {
				continue // nothing shared goes in; effects stay iteration-local
			}
			if depth <= 0 {
				s.problem("call-depth", true, ci, "call chain deeper than the inlining bound reaches %s with shared arguments", shortFuncID(g))
				continue
			}
			s.scanCallee(f, ci, g, depth-1)
		}
		return
	}
	if cc.IsInvoke() {
		s.externalCall(f, ci, id, name, shared)
		return
	}
	// call through a package-level function variable (e.g. `var MapType = types.NewMapType` in a dependency)
	if u, ok := cc.Value.(*ssa.UnOp); ok && u.Op == token.MUL {
		if g, isG := u.X.(*ssa.Global); isG && g.Pkg != nil {
			var rest []ssa.Value
			for _, sh := range shared {
				if sh != cc.Value {
					rest = append(rest, sh)
				}
			}
			s.externalCall(f, ci, g.Pkg.Pkg.Path()+"."+g.Name(), g.Name(), rest)
			return
		}
	}
	// dynamic call that could not be resolved
	if len(shared) == 0 {
		return
	}
	s.problem("dynamic-call", true, ci, "call through an unresolved function value with arguments shared between iterations")
}

// calleesOf resolves the functions a call may run (static callee, closure, function-typed
// parameter resolved at the callers).
func (s *orderScan) calleesOf(cc *ssa.CallCommon) ([]*ssa.Function, bool) {
	if cc.IsInvoke() {
		return nil, false
	}
	if g := staticCallee(cc); g != nil {
		return []*ssa.Function{g}, true
	}
	return s.p.resolveFuncValue(cc.Value, 3)
}

func (s *orderScan) externalCall(f *locFrame, ci ssa.CallInstruction, id, name string, shared []ssa.Value) {
	if len(shared) == 0 {
		return
	}
	if why, ok := reviewedSharedMutations[id]; ok {
		s.note("%s: %s", name, why)
		return
	}
	if pureExternal[id] || !mutatorName(name) {
		return
	}
	cc := ci.Common()
	// a mutator-named callee: does it get a shared receiver / pointer argument?
	var targets []ssa.Value
	if r := callRecv(cc); r != nil {
		targets = append(targets, r)
	} else {
		targets = append(targets, cc.Args...)
	}
	for _, t := range targets {
		for _, sh := range shared {
			if t == sh {
				s.problem("shared-mutation", true, ci, "%s may modify %s, which is shared between iterations; not in the reviewed table", id, s.p.describe(t))
				return
			}
		}
	}
}

// mayTouchGlobals: the function (not transitively) stores to a package-level variable.
func (s *orderScan) mayTouchGlobals(g *ssa.Function) bool {
	for _, b := range g.Blocks {
		for _, in := range b.Instrs {
			if st, ok := in.(*ssa.Store); ok {
				if _, isG := st.Addr.(*ssa.Global); isG {
					return true
				}
			}
		}
	}
	return false
}

// scanCallee follows a workspace callee: parameters are local iff the arguments are.
func (s *orderScan) scanCallee(caller *locFrame, site ssa.CallInstruction, g *ssa.Function, depth int) {
	if s.seen[g] {
		return
	}
	s.seen[g] = true
	defer delete(s.seen, g)
	cc := site.Common()
	fr := &locFrame{fn: g, inBody: func(in ssa.Instruction) bool { return in.Parent() == g }, params: map[*ssa.Parameter]bool{}, free: map[*ssa.FreeVar]bool{}, memo: map[ssa.Value]int{}}
	args := cc.Args
	for i, prm := range g.Params {
		if i < len(args) {
			fr.params[prm] = caller.local(args[i]) || isValueType(args[i].Type()) || immutableRefType(args[i].Type())
		}
	}
	if mc, ok := cc.Value.(*ssa.MakeClosure); ok {
		for i, fv := range g.FreeVars {
			if i < len(mc.Bindings) {
				fr.free[fv] = caller.local(mc.Bindings[i])
			}
		}
	}
	for _, b := range g.Blocks {
		for _, in := range b.Instrs {
			s.scanInstr(fr, in, depth, nil)
		}
	}
}

// scanInstr handles the generic (frame-independent) effects. mr is non-nil only for the
// top-level loop body, where map updates / deletes on the ranged map and collected slices get
// their specific treatment by the caller.
func (s *orderScan) scanInstr(f *locFrame, in ssa.Instruction, depth int, mr *mapRange) {
	switch x := in.(type) {
	case *ssa.MapUpdate:
		if mr != nil {
			return // handled by classifyMapRange
		}
		if !f.local(x.Map) {
			if _, isConst := x.Value.(*ssa.Const); isConst {
				s.note("helper %s inserts a constant into a shared map (set insert)", shortFuncID(f.fn))
				return
			}
			s.problem("shared-map-write", true, x, "helper %s writes %s into a map shared between iterations", shortFuncID(f.fn), s.p.describe(x.Value))
		}
	case *ssa.Store:
		if mr != nil {
			return
		}
		if _, isG := x.Addr.(*ssa.Global); isG {
			s.problem("global-store", true, x, "helper %s stores to package-level variable %s", shortFuncID(f.fn), x.Addr.Name())
			return
		}
		if !f.local(x.Addr) {
			s.problem("shared-store", true, x, "helper %s stores through %s, which is shared between iterations", shortFuncID(f.fn), s.p.describe(x.Addr))
		}
	case *ssa.Send:
		s.problem("send-in-loop", true, x, "channel send inside a map-range loop")
	case ssa.CallInstruction:
		if mr == nil {
			if b, ok := x.Common().Value.(*ssa.Builtin); ok && b.Name() == "delete" && len(x.Common().Args) == 2 && !f.local(x.Common().Args[0]) {
				s.problem("shared-map-delete", true, x, "helper %s deletes from a map shared between iterations", shortFuncID(f.fn))
				return
			}
		}
		s.scanCall(f, x, depth)
	}
}

// ---------------------------------------------------------------------------------------------
// Top-level classification of one range-over-map loop

var sortFuncs = map[string]bool{
	"sort.Slice": true, "sort.SliceStable": true, "sort.Strings": true, "sort.Ints": true, "sort.Float64s": true, "sort.Sort": true, "sort.Stable": true,
	"slices.Sort": true, "slices.SortFunc": true, "slices.SortStableFunc": true,
}

func (p *Program) classifyMapRange(mr *mapRange) (notes []string, probs []orderProblem) {
	s := &orderScan{p: p, seen: map[*ssa.Function]bool{}}
	fr := &locFrame{fn: mr.Fn, inBody: mr.inBody, params: map[*ssa.Parameter]bool{}, free: map[*ssa.FreeVar]bool{}, extra: map[ssa.Value]bool{}, memo: map[ssa.Value]int{}}
	if mr.Key != nil {
		fr.extra[mr.Key] = true
	}
	if mr.Val != nil {
		fr.extra[mr.Val] = true // the current entry's value belongs to this iteration only
	}
	ranged := mr.Range.X
	isKey := func(v ssa.Value) bool {
		if mr.Key == nil {
			return false
		}
		for {
			if v == mr.Key {
				return true
			}
			switch x := v.(type) {
			case *ssa.ChangeType:
				v = x.X
			case *ssa.Convert:
				v = x.X
			case *ssa.MakeInterface:
				v = x.X
			default:
				return false
			}
		}
	}
	sameMap := func(m ssa.Value) bool { return m == ranged || p.sameValue(m, ranged) }

	// (a) exits
	s.checkExits(mr)

	// collections: slices that grow in the loop
	var colls []collRef
	addColl := func(c collRef) {
		for _, x := range colls {
			if x.phi == c.phi && x.alloc == c.alloc && x.val == c.val {
				return
			}
		}
		colls = append(colls, c)
	}

	// (b) header phis: loop-carried values
	for _, in := range mr.Head.Instrs {
		ph, ok := in.(*ssa.Phi)
		if !ok {
			continue
		}
		kind, _ := s.classifyCarried(mr, ph)
		switch kind {
		case "collect":
			addColl(collRef{phi: ph})
		case "counter":
			s.note("%s is a counter / sum (commutative)", phiName(ph))
		case "const":
			s.note("%s only receives constants in the loop (idempotent flag)", phiName(ph))
		case "unchanged":
		default:
			s.problem("loop-carried", true, ph, "value %s carried between iterations depends on the visiting order (%s)", phiName(ph), kind)
		}
	}

	// (c) instructions of the body
	for _, b := range mr.Fn.Blocks {
		if !mr.Body[b] {
			continue
		}
		for _, in := range b.Instrs {
			switch x := in.(type) {
			case *ssa.MapUpdate:
				switch {
				case sameMap(x.Map) && isKey(x.Key):
					s.note("rewrites the current entry of the ranged map")
				case sameMap(x.Map):
					s.problem("range-insert", false, x, "inserts key %s into the map being ranged over (%s): whether the new entry is visited, and what readers of the map see meanwhile, depends on iteration order",
						p.describe(x.Key), p.describe(ranged))
				case isKey(x.Key):
					s.note("writes map %s keyed by the iteration key", p.describe(x.Map))
				case isConstLike(x.Value):
					s.note("set insert into %s (constant value)", p.describe(x.Map))
				case fr.local(x.Map):
					s.note("writes an iteration-local map")
				default:
					s.problem("map-write-other-key", true, x, "map %s is written under key %s (not the iteration key) with a non-constant value: last writer wins",
						p.describe(x.Map), p.describe(x.Key))
				}
			case *ssa.Store:
				s.classifyStore(mr, fr, x, addColl)
			case ssa.CallInstruction:
				cc := x.Common()
				if bi, ok := cc.Value.(*ssa.Builtin); ok && bi.Name() == "delete" && len(cc.Args) == 2 {
					switch {
					case sameMap(cc.Args[0]) && isKey(cc.Args[1]):
						s.note("deletes the current entry of the ranged map")
					case sameMap(cc.Args[0]):
						s.problem("range-delete-other", false, x, "deletes another key (%s) of the map being ranged over: which entries are still visited depends on order", p.describe(cc.Args[1]))
					case fr.local(cc.Args[0]):
					default:
						if s.bodyUpdatesMap(mr, cc.Args[0]) {
							s.problem("map-delete-insert", true, x, "deletes from and inserts into %s in the same loop", p.describe(cc.Args[0]))
						} else {
							s.note("deletes from %s only (commutative)", p.describe(cc.Args[0]))
						}
					}
					continue
				}
				s.scanInstr(fr, in, 5, mr)
			default:
				s.scanInstr(fr, in, 5, mr)
			}
		}
	}

	// (d) collected slices must be sorted before they escape
	for _, c := range colls {
		s.checkCollection(mr, c)
	}
	return s.notes, s.probs
}

func phiName(ph *ssa.Phi) string {
	if ph.Comment != "" {
		return ph.Comment
	}
	return ph.Name()
}

func isConstLike(v ssa.Value) bool {
	v = stripConv(v)
	_, ok := v.(*ssa.Const)
	return ok
}

func (s *orderScan) bodyUpdatesMap(mr *mapRange, m ssa.Value) bool {
	for b := range mr.Body {
		for _, in := range b.Instrs {
			if mu, ok := in.(*ssa.MapUpdate); ok && (mu.Map == m || s.p.sameValue(mu.Map, m)) {
				return true
			}
		}
	}
	return false
}

// checkExits: every way out of the loop other than exhausting the iteration must be an
// error-only return.
func (s *orderScan) checkExits(mr *mapRange) {
	normal := mr.normalExit()
	afterLoop := map[*ssa.BasicBlock]bool{}
	if normal != nil {
		for _, in := range reachableFromEdge(normal, nil) {
			afterLoop[in.Block()] = true
		}
	}
	type constRet struct{ key string }
	var constKeys []string
	for _, b := range mr.Fn.Blocks {
		if !mr.Body[b] {
			continue
		}
		for _, succ := range b.Succs {
			if mr.Body[succ] {
				continue
			}
			if b == mr.Head && succ == normal {
				continue
			}
			// early exit edge b -> succ
			last := b.Instrs[len(b.Instrs)-1]
			seen := map[*ssa.BasicBlock]bool{}
			work := []*ssa.BasicBlock{succ}
			for len(work) > 0 {
				x := work[len(work)-1]
				work = work[:len(work)-1]
				if seen[x] {
					continue
				}
				seen[x] = true
				if afterLoop[x] || mr.Body[x] {
					s.problem("early-exit", true, last, "the loop is left early (break / goto) and execution continues with state that depends on which entries were visited")
					work = nil
					break
				}
				if len(x.Instrs) > 0 {
					switch t := x.Instrs[len(x.Instrs)-1].(type) {
					case *ssa.Return:
						kind, key := s.classifyEarlyReturn(t)
						switch kind {
						case "error":
							s.note("leaves early only by returning an error (which entry's error is reported may vary; nothing is rendered)")
						case "const":
							constKeys = append(constKeys, key)
						default:
							s.problem("early-return", false, t, "returns %s from inside a map-range loop: the result depends on which entry is visited first", key)
						}
					case *ssa.Panic:
					}
				}
				work = append(work, x.Succs...)
			}
		}
	}
	for i := 1; i < len(constKeys); i++ {
		if constKeys[i] != constKeys[0] {
			s.problem("early-return", true, mr.Next, "different constant results are returned from inside the loop (%s vs %s)", constKeys[0], constKeys[i])
			break
		}
	}
	if len(constKeys) > 0 && (len(constKeys) == 1 || constKeys[len(constKeys)-1] == constKeys[0]) {
		s.note("early return of the constant result %s (existential search)", constKeys[0])
	}
}

func (s *orderScan) classifyEarlyReturn(ret *ssa.Return) (kind, key string) {
	n := len(ret.Results)
	var parts []string
	for _, r := range ret.Results {
		parts = append(parts, s.p.describe(r))
	}
	key = "(" + strings.Join(parts, ", ") + ")"
	if n == 0 {
		return "const", key
	}
	last := ret.Results[n-1]
	if last.Type().String() == "error" && !isNilConst(stripConv(last)) {
		if _, isConst := last.(*ssa.Const); !isConst {
			for _, r := range ret.Results[:n-1] {
				if !isConstLike(r) {
					return "data", key
				}
			}
			return "error", key
		}
	}
	for _, r := range ret.Results {
		if !isConstLike(r) {
			return "data", key
		}
	}
	return "const", key
}

// classifyCarried classifies a phi in the loop header by what the loop body feeds into it.
func (s *orderScan) classifyCarried(mr *mapRange, ph *ssa.Phi) (kind string, first ssa.Instruction) {
	seen := map[ssa.Value]bool{ph: true}
	var leaves []ssa.Value
	var walk func(v ssa.Value)
	walk = func(v ssa.Value) {
		if seen[v] {
			return
		}
		seen[v] = true
		if x, ok := v.(*ssa.Phi); ok && mr.Body[x.Block()] {
			for _, e := range x.Edges {
				walk(e)
			}
			return
		}
		leaves = append(leaves, v)
	}
	for i, e := range ph.Edges {
		if mr.Body[mr.Head.Preds[i]] {
			walk(e)
		}
	}
	if len(leaves) == 0 {
		return "unchanged", nil
	}
	allAppend, allAdd, allConst := true, true, true
	for _, l := range leaves {
		in, isInstr := l.(ssa.Instruction)
		inLoop := isInstr && mr.inBody(in)
		if c, ok := l.(*ssa.Call); ok && inLoop {
			if b, isB := c.Call.Value.(*ssa.Builtin); isB && b.Name() == "append" {
				allAdd, allConst = false, false
				if first == nil {
					first = c
				}
				continue
			}
		}
		allAppend = false
		if bo, ok := l.(*ssa.BinOp); ok && inLoop && (bo.Op == token.ADD || bo.Op == token.SUB || bo.Op == token.OR || bo.Op == token.AND || bo.Op == token.MUL) {
			if _, isNum := bo.Type().Underlying().(*types.Basic); isNum && bo.Type().Underlying().(*types.Basic).Info()&types.IsNumeric != 0 {
				allConst = false
				continue
			}
		}
		allAdd = false
		if isConstLike(l) {
			continue
		}
		allConst = false
	}
	switch {
	case allAppend:
		return "collect", first
	case allAdd:
		return "counter", nil
	case allConst:
		return "const", nil
	}
	var parts []string
	for _, l := range leaves {
		parts = append(parts, s.p.describe(l))
	}
	return "receives " + strings.Join(parts, " | "), nil
}

// classifyStore handles stores in the top-level loop body.
func (s *orderScan) classifyStore(mr *mapRange, fr *locFrame, st *ssa.Store, addColl func(collRef)) {
	p := s.p
	switch a := st.Addr.(type) {
	case *ssa.Alloc:
		if mr.inBody(a) {
			return
		}
		// variable declared outside the loop that go/ssa did not lift (captured by a closure, address taken)
		v := st.Val
		if c, ok := v.(*ssa.Call); ok {
			if b, isB := c.Call.Value.(*ssa.Builtin); isB && b.Name() == "append" {
				addColl(collRef{alloc: a})
				return
			}
		}
		if bo, ok := v.(*ssa.BinOp); ok && (bo.Op == token.ADD || bo.Op == token.SUB) {
			s.note("%s is a counter / sum (commutative)", allocName(a))
			return
		}
		if isConstLike(v) {
			s.note("%s only receives constants in the loop", allocName(a))
			return
		}
		if a.Type().Underlying().(*types.Pointer).Elem().String() == "error" {
			// err variable assigned then tested: covered by the exit analysis when it leads to a return
			s.note("%s holds the error of the current iteration", allocName(a))
			return
		}
		s.problem("outer-variable", true, st, "variable %s declared outside the loop is overwritten with an iteration-dependent value", allocName(a))
	case *ssa.IndexAddr:
		if fr.local(a.X) {
			return
		}
		// indexed store into a slice that lives outside the loop: a collection by index
		base := a.X
		if u, ok := base.(*ssa.UnOp); ok && u.Op == token.MUL {
			if al, isA := u.X.(*ssa.Alloc); isA && !mr.inBody(al) {
				addColl(collRef{alloc: al})
				return
			}
		}
		if bi, isInstr := base.(ssa.Instruction); !isInstr || !mr.inBody(bi) {
			addColl(collRef{val: base})
			return
		}
		s.problem("shared-store", true, st, "indexed store into %s, which outlives the iteration", p.describe(base))
	case *ssa.FieldAddr:
		if fr.local(a) {
			return
		}
		s.problem("shared-store", true, st, "stores to %s, which outlives the iteration", p.describe(a))
	case *ssa.Global:
		s.problem("global-store", true, st, "stores to package-level variable %s", a.Name())
	default:
		if !fr.local(st.Addr) {
			s.problem("shared-store", true, st, "stores through %s, which outlives the iteration", p.describe(st.Addr))
		}
	}
}

func allocName(a *ssa.Alloc) string {
	if a.Comment != "" {
		return a.Comment
	}
	return a.Name()
}

// checkCollection: a slice that grows in map order must be sorted before any other use after
// the loop, unless it is an error list that only feeds errors.Join, or a reviewed commutative
// consumer.
func (s *orderScan) checkCollection(mr *mapRange, c collRef) {
	p := s.p
	ph, al, val := c.phi, c.alloc, c.val
	name := ""
	var elem types.Type
	if val != nil {
		name = p.describe(val)
		if sl, ok := val.Type().Underlying().(*types.Slice); ok {
			elem = sl.Elem()
		}
	} else if ph != nil {
		name = phiName(ph)
		if sl, ok := ph.Type().Underlying().(*types.Slice); ok {
			elem = sl.Elem()
		}
	} else {
		name = allocName(al)
		if sl, ok := al.Type().Underlying().(*types.Pointer).Elem().Underlying().(*types.Slice); ok {
			elem = sl.Elem()
		}
	}
	// the values that denote the collection after the loop
	isColl := func(v ssa.Value) bool {
		v = stripConv(v)
		if ph != nil && v == ssa.Value(ph) {
			return true
		}
		if val != nil && v == val {
			return true
		}
		if al != nil {
			if u, ok := v.(*ssa.UnOp); ok && u.Op == token.MUL && u.X == ssa.Value(al) {
				return true
			}
		}
		return false
	}
	isSort := func(in ssa.Instruction) bool {
		ci, ok := in.(ssa.CallInstruction)
		if !ok || mr.inBody(in) {
			return false
		}
		if !sortFuncs[calleeID(ci.Common())] || len(ci.Common().Args) == 0 {
			return false
		}
		return isColl(ci.Common().Args[0])
	}
	// uses after the loop
	var uses []ssa.Instruction
	if val != nil {
		for _, r := range referrersOf(val) {
			if !mr.inBody(r) {
				uses = append(uses, r)
			}
		}
	}
	if ph != nil {
		for _, r := range referrersOf(ph) {
			if !mr.inBody(r) {
				uses = append(uses, r)
			}
		}
	}
	if al != nil {
		for _, r := range referrersOf(al) {
			if mr.inBody(r) {
				continue
			}
			switch x := r.(type) {
			case *ssa.UnOp:
				for _, rr := range referrersOf(x) {
					if !mr.inBody(rr) {
						uses = append(uses, rr)
					}
				}
			case *ssa.MakeClosure:
				// captured by a closure: fine when the closure is the comparator of the sort call
				okClosure := false
				for _, rr := range referrersOf(x) {
					if isSort(rr) {
						okClosure = true
					}
				}
				if !okClosure {
					uses = append(uses, r)
				}
			case *ssa.Store:
				// initialisation before the loop
			}
		}
	}
	// look through value-preserving conversions (sort.Slice takes the slice as `any`)
	for i := 0; i < len(uses); i++ {
		switch x := uses[i].(type) {
		case *ssa.MakeInterface, *ssa.ChangeType, *ssa.ChangeInterface:
			uses = append(uses, referrersOf(x.(ssa.Value))...)
			uses[i] = nil
		}
	}
	afterLoop := map[*ssa.BasicBlock]bool{}
	if ne := mr.normalExit(); ne != nil {
		for _, in := range reachableFromEdge(ne, nil) {
			afterLoop[in.Block()] = true
		}
	}
	if mr.Head == nil {
		// no loop in this function: the slice was filled in map order by a library helper
		// (libraryCollection); every use of the value comes after it
		for _, b := range mr.Fn.Blocks {
			afterLoop[b] = true
		}
	}
	var unsorted []ssa.Instruction
	sorted := false
	onlyErrJoin := true
	for _, u := range uses {
		if u == nil || mr.inBody(u) {
			continue
		}
		if !afterLoop[u.Block()] {
			continue // use before the loop (initialisation)
		}
		if isSort(u) {
			sorted = true
			continue
		}
		if _, isDbg := u.(*ssa.DebugRef); isDbg {
			continue
		}
		if ci, ok := u.(ssa.CallInstruction); ok {
			if b, isB := ci.Common().Value.(*ssa.Builtin); isB && (b.Name() == "len" || b.Name() == "cap") {
				continue
			}
			if isCallTo(ci.Common(), "errors.Join") {
				if !p.mustPrecede(u, isSort) {
					unsorted = append(unsorted, u)
				}
				continue
			}
		}
		onlyErrJoin = false
		if !p.mustPrecede(u, isSort) {
			unsorted = append(unsorted, u)
		}
	}
	if len(unsorted) == 0 {
		if sorted {
			s.note("%s is collected in map order and sorted before every use after the loop", name)
		} else {
			s.note("%s is collected in map order and not used afterwards", name)
		}
		return
	}
	if elem != nil && elem.String() == "error" && onlyErrJoin {
		s.note("%s collects errors that only feed errors.Join (order of the error text only; nothing is rendered)", name)
		return
	}
	if why := s.reviewedCollection(mr, ph, al, elem); why != "" {
		s.note("%s: %s", name, why)
		return
	}
	at := unsorted[0]
	s.problem("unsorted-collect", false, at, "slice %s is filled in map-iteration order and used without a dominating sort (%d use(s))", name, len(unsorted))
}

// reviewedCollection: collections whose consumers are insensitive to element order, decided
// structurally: every appended element is cel.Variable(<iteration key>, …) — CEL variable
// declarations with distinct names commute.
func (s *orderScan) reviewedCollection(mr *mapRange, ph *ssa.Phi, al *ssa.Alloc, elem types.Type) string {
	if elem == nil || namedTypeString(elem) != "github.com/google/cel-go/cel.EnvOption" {
		return ""
	}
	n := 0
	for b := range mr.Body {
		for _, in := range b.Instrs {
			c, ok := in.(*ssa.Call)
			if !ok {
				continue
			}
			bi, isB := c.Call.Value.(*ssa.Builtin)
			if !isB || bi.Name() != "append" || len(c.Call.Args) != 2 {
				continue
			}
			if namedTypeString(c.Type().Underlying().(*types.Slice).Elem()) != "github.com/google/cel-go/cel.EnvOption" {
				continue
			}
			elems, ok := sliceElems(c.Call.Args[1])
			if !ok {
				return ""
			}
			for _, e := range elems {
				vc, _ := asCall(e)
				if vc == nil || !isCallTo(vc.Common(), "github.com/google/cel-go/cel.Variable") || len(vc.Common().Args) < 1 || vc.Common().Args[0] != mr.Key {
					return ""
				}
				n++
			}
		}
	}
	if n == 0 {
		return ""
	}
	return "every element is cel.Variable(<iteration key>, …): declarations of distinct CEL variables commute (reviewed consumer cel.NewEnv)"
}

// collRef denotes a slice that grows inside the loop: an SSA-lifted variable (header phi), a
// variable go/ssa keeps in memory (captured by a closure), or a pre-sized slice value filled by index.
type collRef struct {
	phi   *ssa.Phi
	alloc *ssa.Alloc
	val   ssa.Value
}

// ---------------------------------------------------------------------------------------------
// Map iteration through library helpers (no ssa.Range in the workspace)

// mapIterHelpers: library functions that iterate a map in unspecified order. "seq": the result is an
// iterator over keys/values, "seq2" over entries, "slice": a slice filled in map order; "" = a form
// that is not analysed.
var mapIterHelpers = map[string]string{
	"maps.Keys": "seq", "maps.Values": "seq", "maps.All": "seq2",
	"golang.org/x/exp/maps.Keys": "slice", "golang.org/x/exp/maps.Values": "slice",
	"(reflect.Value).MapKeys": "", "(reflect.Value).MapRange": "", "k8s.io/apimachinery/pkg/util/sets.KeySet": "",
}

// classifyMapIterHelper decides a call of one of the mapIterHelpers the way a hand-written loop is
// decided: an iterator that is consumed by slices.Sorted* is ordered; one that is collected into a
// slice (slices.Collect / slices.AppendSeq) is a slice filled in map order, which has to be sorted
// before any other use (checkCollection, the rule for `for k := range m { s = append(s, k) }`); an
// entry iterator that only fills a map (maps.Collect / maps.Insert) commutes. Anything else — the
// iterator ranged over, passed on, stored — is unknown.
func (p *Program) classifyMapIterHelper(site ssa.Instruction, id string) (notes []string, probs []orderProblem) {
	s := &orderScan{p: p, seen: map[*ssa.Function]bool{}}
	unknown := func(format string, a ...any) ([]string, []orderProblem) {
		s.problem("map-iteration-helper", true, site, format, a...)
		return s.notes, s.probs
	}
	kind := mapIterHelpers[id]
	call, isCall := site.(*ssa.Call)
	if kind == "" || !isCall {
		return unknown("%s iterates a map in unspecified order; this form is not analysed by the lint — sort the result or range over the map directly", id)
	}
	if calleeID(call.Common()) != id {
		return unknown("%s is used as a function value; not analysed", id)
	}
	fn := site.Parent()
	var colls []ssa.Value
	if kind == "slice" {
		colls = append(colls, call)
	} else {
		for _, r := range referrersOf(call) {
			if _, isDbg := r.(*ssa.DebugRef); isDbg {
				continue
			}
			rc, ok := r.(*ssa.Call)
			if !ok {
				return unknown("the iterator returned by %s is not consumed by a recognised collector at %s (slices.Sorted*, slices.Collect, slices.AppendSeq, maps.Collect, maps.Insert); ranging over it or passing it on is not analysed", id, p.IPos(r))
			}
			cid := calleeID(rc.Common())
			args := rc.Common().Args
			switch {
			case kind == "seq" && (cid == "slices.Sorted" || cid == "slices.SortedFunc" || cid == "slices.SortedStableFunc") && len(args) >= 1 && args[0] == ssa.Value(call):
				s.note("the iterator of %s is consumed by %s: the result is sorted", id, cid)
			case kind == "seq" && cid == "slices.Collect" && len(args) == 1 && args[0] == ssa.Value(call):
				colls = append(colls, rc)
			case kind == "seq" && cid == "slices.AppendSeq" && len(args) == 2 && args[1] == ssa.Value(call) && args[0] != ssa.Value(call):
				colls = append(colls, rc)
			case kind == "seq2" && cid == "maps.Collect" && len(args) == 1:
				s.note("the entries of %s only fill a new map (maps.Collect): distinct keys commute", id)
			case kind == "seq2" && cid == "maps.Insert" && len(args) == 2 && args[1] == ssa.Value(call):
				s.note("the entries of %s are only inserted into a map (maps.Insert): distinct keys commute", id)
			default:
				return unknown("the iterator returned by %s is passed to %s at %s; not analysed", id, cid, p.IPos(r))
			}
		}
	}
	mr := &mapRange{Fn: fn, Body: map[*ssa.BasicBlock]bool{}}
	for _, v := range colls {
		c := collRef{val: v}
		// a variable go/ssa keeps in memory (captured by the comparator closure of the sort call)
		var stores []*ssa.Store
		other := 0
		for _, r := range referrersOf(v) {
			switch x := r.(type) {
			case *ssa.DebugRef:
			case *ssa.Store:
				if x.Val == v {
					stores = append(stores, x)
				} else {
					other++
				}
			default:
				other++
			}
		}
		if len(stores) == 1 && other == 0 {
			al, isAlloc := stores[0].Addr.(*ssa.Alloc)
			if !isAlloc {
				return unknown("the slice collected from %s is stored into %s; not analysed", id, p.describe(stores[0].Addr))
			}
			n := 0
			for _, r := range referrersOf(al) {
				if st, isSt := r.(*ssa.Store); isSt && st.Addr == ssa.Value(al) {
					n++
				}
			}
			if n != 1 {
				return unknown("the variable holding the slice collected from %s is assigned more than once; not analysed", id)
			}
			c = collRef{alloc: al}
		} else if len(stores) > 0 {
			return unknown("the slice collected from %s is both stored and used directly; not analysed", id)
		}
		before := len(s.probs)
		s.checkCollection(mr, c)
		for i := before; i < len(s.probs); i++ {
			s.probs[i].Detail += " (collected from " + id + ")"
		}
	}
	return s.notes, s.probs
}

// ---------------------------------------------------------------------------------------------
// Sort comparators
//
// sortComparatorModel reads the comparator handed to sort.Slice / sort.SliceStable (a "less" function
// over two indexes into the sorted slice) or slices.SortFunc / slices.SortStableFunc (a three-way
// function over two elements) as "orders the elements by key K": every return of the comparator is
// judged against the relation between K(first) and K(second) that the guard facts of the return (and a
// returned comparison / cmp.Compare / strings.Compare itself) establish. The model exists only when the
// comparator is a strict order by one key: `less` is true exactly for K(a) < K(b); the three-way result
// is negative exactly for K(a) < K(b), positive exactly for K(a) > K(b) — so distinct keys never
// compare equal. Whether K is injective on the elements is a separate judgement (C13.R7).

type sortCmpModel struct {
	Fn       *ssa.Function
	ThreeWay bool   // func(a, b T) int; otherwise a less function
	Shape    string // the key as an expression of the element, written "$" (e.g. "$.Index")
	Desc     bool   // descending by the key
}

const (
	scLT = 1
	scEQ = 2
	scGT = 4
)

// sortComparatorFn: the function used as comparator: a closure, a literal that captures nothing
// (go/ssa passes the function itself) or a named function.
func sortComparatorFn(v ssa.Value) (*ssa.Function, *ssa.MakeClosure) {
	switch x := stripConv(v).(type) {
	case *ssa.MakeClosure:
		f, _ := x.Fn.(*ssa.Function)
		return f, x
	case *ssa.Function:
		return x, nil
	}
	return nil, nil
}

type cmpShaper struct {
	fn      *ssa.Function
	mc      *ssa.MakeClosure
	sorted  ssa.Value // the slice handed to the sort call
	byIndex bool      // parameters are indexes into the sorted slice, not elements
}

func (s *cmpShaper) paramIdx(v ssa.Value) int {
	for i, q := range s.fn.Params {
		if ssa.Value(q) == v {
			return i
		}
	}
	return -1
}

// isSorted: x (a value of the comparator) denotes the slice being sorted.
func (s *cmpShaper) isSorted(x ssa.Value) bool {
	x = stripConv(x)
	sorted := stripConv(s.sorted)
	binding := func(fv *ssa.FreeVar) ssa.Value {
		if s.mc == nil {
			return nil
		}
		for i, q := range s.fn.FreeVars {
			if q == fv && i < len(s.mc.Bindings) {
				return s.mc.Bindings[i]
			}
		}
		return nil
	}
	switch y := x.(type) {
	case *ssa.FreeVar:
		b := binding(y)
		return b != nil && b == sorted
	case *ssa.UnOp:
		if fv, ok := y.X.(*ssa.FreeVar); ok && y.Op == token.MUL {
			b := binding(fv)
			if b == nil {
				return false
			}
			if l, isLoad := sorted.(*ssa.UnOp); isLoad && l.Op == token.MUL && l.X == b {
				return true
			}
		}
	}
	return false
}

func mergeRoot(a, b int) (int, bool) {
	switch {
	case a == -1:
		return b, true
	case b == -1 || a == b:
		return a, true
	}
	return 0, false
}

// shape renders v as an expression of one of the two compared elements ("$"); root tells which
// (0 first, 1 second, -1 none: a constant).
func (s *cmpShaper) shape(v ssa.Value, d int) (string, int, bool) {
	if v == nil || d > 16 {
		return "", 0, false
	}
	switch x := v.(type) {
	case *ssa.Const:
		if x.Value == nil {
			return "nil", -1, true
		}
		return x.Value.ExactString(), -1, true
	case *ssa.Parameter:
		if i := s.paramIdx(x); i >= 0 && i < 2 && !s.byIndex {
			return "$", i, true
		}
	case *ssa.Alloc:
		// a parameter spilled because its fields are selected
		var val ssa.Value
		n := 0
		for _, r := range referrersOf(x) {
			if st, ok := r.(*ssa.Store); ok && st.Addr == ssa.Value(x) {
				n++
				val = st.Val
			}
		}
		if n == 1 {
			if _, isParam := val.(*ssa.Parameter); isParam {
				return s.shape(val, d+1)
			}
		}
	case *ssa.UnOp:
		in, r, ok := s.shape(x.X, d+1)
		if !ok {
			return "", 0, false
		}
		if x.Op == token.MUL {
			return in, r, true
		}
		return x.Op.String() + in, r, true
	case *ssa.FieldAddr:
		in, r, ok := s.shape(x.X, d+1)
		return in + "." + fieldName(x.X.Type(), x.Field), r, ok
	case *ssa.Field:
		in, r, ok := s.shape(x.X, d+1)
		return in + "." + fieldName(x.X.Type(), x.Field), r, ok
	case *ssa.IndexAddr:
		if s.byIndex {
			if i := s.paramIdx(x.Index); i >= 0 && i < 2 && s.isSorted(x.X) {
				return "$", i, true
			}
		}
		if k, isC := constInt(x.Index); isC {
			in, r, ok := s.shape(x.X, d+1)
			return fmt.Sprintf("%s[%d]", in, k), r, ok
		}
	case *ssa.Index:
		if k, isC := constInt(x.Index); isC {
			in, r, ok := s.shape(x.X, d+1)
			return fmt.Sprintf("%s[%d]", in, k), r, ok
		}
	case *ssa.Lookup:
		in, r, ok := s.shape(x.X, d+1)
		ix, r2, ok2 := s.shape(x.Index, d+1)
		root, ok3 := mergeRoot(r, r2)
		return in + "[" + ix + "]", root, ok && ok2 && ok3
	case *ssa.Extract:
		in, r, ok := s.shape(x.Tuple, d+1)
		return fmt.Sprintf("%s#%d", in, x.Index), r, ok
	case *ssa.Convert:
		in, r, ok := s.shape(x.X, d+1)
		return x.Type().String() + "(" + in + ")", r, ok
	case *ssa.ChangeType:
		return s.shape(x.X, d+1)
	case *ssa.MakeInterface:
		return s.shape(x.X, d+1)
	case *ssa.ChangeInterface:
		return s.shape(x.X, d+1)
	case *ssa.BinOp:
		a, r1, ok1 := s.shape(x.X, d+1)
		b, r2, ok2 := s.shape(x.Y, d+1)
		root, ok3 := mergeRoot(r1, r2)
		return "(" + a + " " + x.Op.String() + " " + b + ")", root, ok1 && ok2 && ok3
	case *ssa.Call:
		cc := x.Common()
		parts := []string{}
		root := -1
		if cc.IsInvoke() {
			in, r, ok := s.shape(cc.Value, d+1)
			if !ok {
				return "", 0, false
			}
			parts = append(parts, in)
			root = r
		} else if staticCallee(cc) == nil {
			if _, isB := cc.Value.(*ssa.Builtin); !isB {
				return "", 0, false
			}
		}
		for _, a := range cc.Args {
			in, r, ok := s.shape(a, d+1)
			if !ok {
				return "", 0, false
			}
			var okm bool
			if root, okm = mergeRoot(root, r); !okm {
				return "", 0, false
			}
			parts = append(parts, in)
		}
		return calleeID(cc) + "(" + strings.Join(parts, ", ") + ")", root, true
	}
	return "", 0, false
}

// relOf: cond == pol restricts the relation between K(first) and K(second) to the returned set
// (bits scLT|scEQ|scGT). ok is false when cond is not a comparison of the two keys.
func (m *sortCmpModel) relOf(s *cmpShaper, cond ssa.Value, pol bool) (int, bool) {
	bo, ok := cond.(*ssa.BinOp)
	if !ok {
		return 0, false
	}
	x, y := bo.X, bo.Y
	// cmp.Compare(x, y) <op> 0
	if k, isC := constInt(y); isC && k == 0 {
		if call, _ := asCall(x); call != nil && isCallTo(call.Common(), "cmp.Compare", "strings.Compare") && len(call.Common().Args) == 2 {
			x, y = call.Common().Args[0], call.Common().Args[1]
		}
	}
	var mask int
	switch bo.Op {
	case token.LSS:
		mask = scLT
	case token.LEQ:
		mask = scLT | scEQ
	case token.GTR:
		mask = scGT
	case token.GEQ:
		mask = scGT | scEQ
	case token.EQL:
		mask = scEQ
	case token.NEQ:
		mask = scLT | scGT
	default:
		return 0, false
	}
	swapped, ok := m.keys(s, x, y)
	if !ok {
		return 0, false
	}
	if swapped {
		mask = (mask&scLT)<<2 | mask&scEQ | (mask&scGT)>>2
	}
	if !pol {
		mask = 7 ^ mask
	}
	return mask, true
}

// keys: x and y are the same key expression, one of the first and one of the second element.
func (m *sortCmpModel) keys(s *cmpShaper, x, y ssa.Value) (swapped bool, ok bool) {
	sx, rx, ok1 := s.shape(x, 0)
	sy, ry, ok2 := s.shape(y, 0)
	if !ok1 || !ok2 || sx != sy || rx < 0 || ry < 0 || rx == ry {
		return false, false
	}
	if m.Shape == "" {
		m.Shape = sx
	} else if m.Shape != sx {
		return false, false
	}
	return rx == 1, true
}

func (p *Program) sortComparatorModel(call *ssa.CallCommon) (*sortCmpModel, string) {
	byIndex := false
	switch calleeID(call) {
	case "sort.Slice", "sort.SliceStable":
		byIndex = true
	case "slices.SortFunc", "slices.SortStableFunc":
	default:
		return nil, "not a sort with a comparator"
	}
	if len(call.Args) != 2 {
		return nil, "unexpected arguments"
	}
	fn, mc := sortComparatorFn(call.Args[1])
	if fn == nil || fn.Blocks == nil || len(fn.Params) != 2 || fn.Signature.Results().Len() != 1 {
		return nil, "comparator is not a function whose body is known"
	}
	m := &sortCmpModel{Fn: fn, ThreeWay: !byIndex}
	s := &cmpShaper{fn: fn, mc: mc, sorted: call.Args[0], byIndex: byIndex}
	asc, desc := true, true
	cases := p.returnCases(fn)
	if len(cases) == 0 {
		return nil, "comparator does not return"
	}
	for _, rc := range cases {
		allowed := scLT | scEQ | scGT
		for _, f := range rc.Facts {
			if mask, ok := m.relOf(s, f.Cond, f.Pol); ok {
				allowed &= mask
			}
		}
		if allowed == 0 {
			continue // infeasible return
		}
		// the relations under which this return answers "first before second" (lt), "equal" (eq),
		// "second before first" (gt)
		var lt, eq, gt int
		r := rc.Results[0]
		if r == nil {
			return nil, "a returned value could not be resolved"
		}
		r = stripConv(r)
		if m.ThreeWay {
			neg := false
			if u, isU := r.(*ssa.UnOp); isU && u.Op == token.SUB {
				neg = true
				r = stripConv(u.X)
			}
			if k, isC := constInt(r); isC {
				if neg {
					k = -k
				}
				switch {
				case k < 0:
					lt = allowed
				case k > 0:
					gt = allowed
				default:
					eq = allowed
				}
			} else if cl, isCall := r.(*ssa.Call); isCall && isCallTo(cl.Common(), "cmp.Compare", "strings.Compare") && len(cl.Common().Args) == 2 {
				swapped, ok := m.keys(s, cl.Common().Args[0], cl.Common().Args[1])
				if !ok {
					return nil, "the operands of " + calleeID(cl.Common()) + " at " + p.IPos(cl) + " are not the same key of the two elements"
				}
				lt, eq, gt = allowed&scLT, allowed&scEQ, allowed&scGT
				if swapped != neg {
					lt, gt = gt, lt
				}
			} else {
				return nil, "returns a value that is neither a constant nor cmp.Compare/strings.Compare of the keys at " + p.IPos(rc.Ret)
			}
		} else {
			if b, isC := constBool(r); isC {
				if b {
					lt = allowed
				} else {
					eq = allowed // "not less": equal or after
				}
			} else if mask, ok := m.relOf(s, r, true); ok {
				lt = allowed & mask
				eq = allowed &^ mask
			} else {
				return nil, "returns a value that is neither a constant nor a comparison of the keys at " + p.IPos(rc.Ret)
			}
		}
		if m.ThreeWay {
			// ascending: negative only for <, zero only for ==, positive only for >
			if lt&^scLT != 0 || eq&^scEQ != 0 || gt&^scGT != 0 {
				asc = false
			}
			if lt&^scGT != 0 || eq&^scEQ != 0 || gt&^scLT != 0 {
				desc = false
			}
		} else {
			// ascending: true only for <, false only for == or >
			if lt&^scLT != 0 || eq&scLT != 0 {
				asc = false
			}
			if lt&^scGT != 0 || eq&scGT != 0 {
				desc = false
			}
		}
	}
	if m.Shape == "" {
		return nil, "the comparator does not compare a key of the two elements"
	}
	switch {
	case asc:
	case desc:
		m.Desc = true
	default:
		return nil, "the comparator is not a strict order by " + m.Shape + " (some return answers 'before' or 'equal' for keys that are not)"
	}
	return m, ""
}
