package main

import (
	"fmt"
	"go/token"
	"go/types"
	"strings"

	"golang.org/x/tools/go/ssa"
)

// ---------------------------------------------------------------------------------------------
// Optimistic concurrency: the resourceVersion of a typed Package Operator API object is only ever
// the one the API server handed out for the version that was read. Overwriting it (to push a status
// or spec computed from an older read through a conflict) turns the Update into a blind overwrite.
// Who-may-write rule over SetResourceVersion calls and direct ResourceVersion field stores.
// Positive control: the ObjectTemplate reconciler legitimately copies the resourceVersion of the
// object it read onto the freshly rendered *unstructured* target.

func rvOverwriteRule(c *Ctx) {
	p := c.P
	control := 0
	for _, fn := range p.productFuncs() {
		pk := funcPkgPath(fn)
		if !strings.HasPrefix(pk, pkgControllers) && !strings.HasPrefix(pk, modPKO+"/internal/packages") && pk != pkgAdapters {
			continue
		}
		for _, cc := range callsIn(fn) {
			if calleeName(cc.Common) != "SetResourceVersion" {
				continue
			}
			recv := callRecv(cc.Common)
			if recv == nil {
				continue
			}
			cls := classifyObjectArg(recv)
			if prm, ok := stripConv(recv).(*ssa.Parameter); ok && cls == "unknown" {
				_ = prm
			}
			if cls == "dyn" {
				control++
				o := c.Ob(fn, "SetResourceVersion-dyn", cc.Instr, "resourceVersion copied onto a freshly built dynamic object comes from the object read in this pass")
				args := callArgs(cc.Common)
				src, _ := asCall(args[0])
				if src != nil && calleeName(src.Common()) == "GetResourceVersion" {
					o.OK("from " + p.describe(callRecv(src.Common())))
				} else {
					o.Fail("resourceVersion is %s, not the GetResourceVersion() of an object that was read", p.describe(args[0]))
				}
				continue
			}
			o := c.Ob(fn, "SetResourceVersion-typed", cc.Instr, "the resourceVersion of a typed Package Operator API object is never overwritten (optimistic concurrency on status/spec updates)")
			o.Fail("SetResourceVersion on %s: an Update/Status().Update of this object would no longer be conditioned on the version that was read — a pass that observed an outdated object can overwrite newer status (e.g. withdraw Succeeded)", p.describe(recv))
		}
		// direct stores to ObjectMeta.ResourceVersion
		for _, b := range fn.Blocks {
			for _, in := range b.Instrs {
				st, ok := in.(*ssa.Store)
				if !ok {
					continue
				}
				fa, ok := st.Addr.(*ssa.FieldAddr)
				if !ok || fieldName(fa.X.Type(), fa.Field) != "ResourceVersion" {
					continue
				}
				if namedTypeString(fa.X.Type()) != pkgMetaV1+".ObjectMeta" {
					continue
				}
				if strings.Contains(fn.Name(), "DeepCopy") {
					continue
				}
				o := c.Ob(fn, "ResourceVersion-store", in, "no direct store to metadata.resourceVersion of an API object")
				o.Fail("direct store to ObjectMeta.ResourceVersion")
			}
		}
	}
	if control == 0 {
		c.AnchorLost("positive control: SetResourceVersion on the rendered unstructured target in the ObjectTemplate reconciler")
	}
}

const rvStatement = "status and spec updates stay conditioned on the version that was read: SetResourceVersion is never called on a typed API object, and a dynamic object only receives the resourceVersion of the object read in this pass"

// ---------------------------------------------------------------------------------------------
// Archival bookkeeping is reached on every path (C06 / C10): in the function that decides
// Archived=True/False, every error-free return that can be taken by an archived ObjectSet passes a
// SetStatusCondition(Archived, …). An early return (e.g. "finalizer already gone") would leave an
// archived ObjectSet without Archived=True forever after a lost status update or restart.

func archivalBookkeepingRule(c *Ctx) {
	p := c.P
	n := 0
	for _, pk := range []string{pkgObjectSets} {
		for _, fn := range p.FuncsIn(pk) {
			if fn.Parent() != nil {
				continue
			}
			var sets []ssa.Instruction
			for _, cs := range conditionSets(fn) {
				if cs.Type == "Archived" {
					sets = append(sets, cs.Call.Instr)
				}
			}
			if len(sets) == 0 {
				continue
			}
			n++
			isSet := func(in ssa.Instruction) bool {
				for _, s := range sets {
					if s == in {
						return true
					}
				}
				return false
			}
			// must-dataflow: ok_out(b) = every path to the end of b passed a set or an edge on which
			// IsArchived() is known false. Run per return: edges whose test contradicts what is known
			// at that return (correlated branches) cannot be on a path to it and are left out.
			contains := map[*ssa.BasicBlock]bool{}
			for _, b := range fn.Blocks {
				for _, in := range b.Instrs {
					if isSet(in) {
						contains[b] = true
					}
				}
			}
			entry := fn.Blocks[0]
			edgeOK := func(from, to *ssa.BasicBlock) bool {
				for _, f := range p.edgeFacts(from, to) {
					if call, _ := asCall(f.Cond); call != nil && calleeName(call.Common()) == "IsArchived" && !f.Pol {
						return true
					}
				}
				return false
			}
			solve := func(at []Fact) map[*ssa.BasicBlock]bool {
				okOut := map[*ssa.BasicBlock]bool{}
				for _, b := range fn.Blocks {
					okOut[b] = true
				}
				okOut[entry] = contains[entry]
				for changed := true; changed; {
					changed = false
					for _, b := range fn.Blocks {
						if b == entry {
							continue
						}
						v := contains[b]
						if !v {
							v = len(b.Preds) > 0
							for _, pr := range b.Preds {
								if p.edgeContradicts(pr, b, at) {
									continue
								}
								if !okOut[pr] && !edgeOK(pr, b) {
									v = false
								}
							}
						}
						if v != okOut[b] {
							okOut[b] = v
							changed = true
						}
					}
				}
				return okOut
			}
			for _, rc := range p.returnCases(fn) {
				if fn.Recover != nil && rc.Ret.Block() == fn.Recover {
					continue
				}
				// only error-free returns
				last := rc.Results[len(rc.Results)-1]
				if last.Type().String() != "error" {
					continue
				}
				mayBeNil := false
				for _, pv := range p.possibleValues(last) {
					if isNilConst(pv) {
						mayBeNil = true
					}
				}
				if !mayBeNil {
					continue
				}
				o := c.Ob(fn, "archived-bookkeeping-return", rc.Ret, c.rule.Statement)
				b := rc.Ret.Block()
				okOut := solve(rc.Facts)
				ok := okOut[b]
				if rc.Pred != nil {
					ok = okOut[rc.Pred] || edgeOK(rc.Pred, b) || contains[b]
				}
				if ok {
					o.OK()
				} else {
					o.Fail("an error-free return is reachable by an archived ObjectSet without any Archived condition having been written on that path: after a lost status update or a restart the ObjectSet stays archived without ever reporting Archived=True")
				}
			}
		}
	}
	if n == 0 {
		c.AnchorLost("function writing the Archived condition in " + pkgObjectSets)
	}
}

const archivalStatement = "in the function that reports archival progress, every error-free return that an archived ObjectSet can take is preceded by a write of the Archived condition (True when teardown is complete, False while in progress) — also when the cache finalizer is already gone"

// ---------------------------------------------------------------------------------------------
// controllerOf of an unavailable revision is complete w.r.t. what the pass reconciled (C08/C06):
// in the phase loop, a return from inside an iteration that hands back the accumulated
// controllerOf list must include this iteration's contribution. The ObjectDeployment's "nothing in
// common with the next revision" test reads status.controllerOf of *unavailable* revisions.

func controllerOfCompleteRule(c *Ctx) {
	p := c.P
	n := 0
	for _, fn := range p.FuncsIn(pkgObjectSets) {
		for _, l := range loopsOf(fn) {
			// the call(s) in the loop that yield ([]ControlledObjectReference, ProbingResult, error);
			// several when the dispatch between kinds of phases is written out in the loop body
			var ks []*ssa.Call
			for _, b := range fn.Blocks {
				if !l.Body[b] {
					continue
				}
				for _, in := range b.Instrs {
					call, ok := in.(*ssa.Call)
					if !ok {
						continue
					}
					res := call.Common().Signature().Results()
					if res.Len() == 3 && isSliceOfNamed(res.At(0).Type(), pkgCoreV1+".ControlledObjectReference") &&
						namedTypeString(res.At(1).Type()) == pkgControllers+".ProbingResult" {
						ks = append(ks, call)
					}
				}
			}
			if len(ks) == 0 {
				continue
			}
			n++
			o := c.Ob(fn, "controllerOf-complete-on-early-exit", ks[0], c.rule.Statement)
			var bad []string
			for _, k := range ks {
				// Every path from the call that leaves the iteration other than through the back edge —
				// a return that reports a list, or a break — must first append this iteration's
				// contribution (result 0 of the call, on the paths that executed it) to the accumulator.
				w := p.pfAfter(k)
				isAppend := func(in ssa.Instruction) bool {
					call, ok := in.(*ssa.Call)
					if !ok || !isCallTo(call.Common(), "builtin:append") || len(call.Common().Args) != 2 {
						return false
					}
					return w.isResult(call.Common().Args[1], 0)
				}
				seen := map[*ssa.BasicBlock]bool{}
				var visit func(b *ssa.BasicBlock, from int)
				visit = func(b *ssa.BasicBlock, from int) {
					for i := from; i < len(b.Instrs); i++ {
						in := b.Instrs[i]
						if isAppend(in) {
							return // satisfied on this path
						}
						if r, ok := in.(*ssa.Return); ok {
							if len(r.Results) > 0 {
								nilList := true
								for _, pv := range p.possibleValues(r.Results[0]) {
									if !isNilConst(stripConv(pv)) {
										nilList = false
									}
								}
								if !nilList {
									bad = append(bad, "return at "+p.IPos(r))
								}
							}
							return
						}
					}
					for _, s := range b.Succs {
						if s == l.Head {
							continue // next iteration
						}
						// leaving the loop from inside an iteration (break / return): keep following the
						// path; what matters is the list reported by the return it reaches
						if !seen[s] {
							seen[s] = true
							visit(s, 0)
						}
					}
				}
				visit(k.Block(), instrIndex(k)+1)
			}
			if len(bad) == 0 {
				o.OK("every early exit of an iteration passes append(acc, <this phase's controllerOf>...)")
			} else {
				o.Fail("the iteration can be left (%s) with a reported list that does not include the objects this phase reported as controlled: status.controllerOf of a revision whose probe fails would omit the failing phase, and the ObjectDeployment could archive it while it still controls objects the next revision contains", strings.Join(dedupe(bad), ", "))
			}
		}
	}
	if n == 0 {
		c.AnchorLost("phase loop collecting []ControlledObjectReference in " + pkgObjectSets)
	}
}

// returnsFromIteration: the return block is reached directly from inside the loop body without
// passing the loop header's exit edge (break/return out of an iteration).
func returnsFromIteration(ret *ssa.Return, l *Loop) bool {
	b := ret.Block()
	for _, pr := range b.Preds {
		if l.Body[pr] && pr != l.Head {
			return true
		}
	}
	return false
}

const controllerOfStatement = "a return from inside the phase loop that reports the accumulated controllerOf list includes the current phase's controlled objects (status.controllerOf is complete for everything reconciled in the pass, also when a probe fails)"

// ---------------------------------------------------------------------------------------------
// Dry-run verdicts are never lost (C11): every return of the dry-run preflight check that can be
// taken while the dry-run write returned a non-nil error reports a violation or returns that error.

func dryRunVerdictRule(c *Ctx) {
	p := c.P
	n := 0
	for _, fn := range p.FuncsIn(pkgPreflight) {
		if fn.Parent() != nil {
			continue
		}
		// inlined view: the dry-run writes may sit in an extracted helper (`err = p.dryRunApply(...)`);
		// the helper call then stands for them and its result is looked through (possibleValuesX)
		var dry []*ssa.Call
		drySite := map[*ssa.Call]ssa.Instruction{}
		for _, xw := range p.writerSitesX(fn) {
			ws := xw.WriterSite
			isDry := false
			for _, o := range ws.Opts {
				if g, ok := stripConv(o).(*ssa.UnOp); ok {
					if gl, ok := g.X.(*ssa.Global); ok && gl.Name() == "DryRunAll" {
						isDry = true
					}
				}
				if gl, ok := stripConv(o).(*ssa.Global); ok && gl.Name() == "DryRunAll" {
					isDry = true
				}
			}
			if call, ok := ws.Call.Instr.(*ssa.Call); ok && isDry {
				dry = append(dry, call)
				drySite[call] = rootSite(call, xw.Chain)
			}
		}
		if len(dry) == 0 {
			continue
		}
		n++
		isDryErr := func(v ssa.Value) bool {
			for _, d := range dry {
				if stripConv(v) == ssa.Value(d) {
					return true
				}
			}
			return false
		}
		for _, rc := range p.returnCases(fn) {
			if fn.Recover != nil && rc.Ret.Block() == fn.Recover {
				continue
			}
			if len(rc.Results) != 2 {
				continue
			}
			// only returns after a dry-run call
			after := false
			for _, d := range dry {
				if canPrecede(drySite[d], rc.Ret) {
					after = true
				}
			}
			if !after {
				continue
			}
			o := c.Ob(fn, "dry-run-verdict-return", rc.Ret, c.rule.Statement)
			// (a) returns the dry-run error
			retErrVals := p.possibleValuesX(rc.Results[1])
			returnsErr := len(retErrVals) > 0
			for _, pv := range retErrVals {
				if !isDryErr(pv) {
					returnsErr = false
				}
			}
			// (b) returns a non-empty violation list
			hasViolation := false
			if n, ok := sliceLiteralLen(rc.Results[0]); ok && n > 0 {
				hasViolation = true
			}
			// (c) the dry-run error is known nil on this path
			errNil := false
			for _, f := range rc.Facts {
				x, trueMeansNonNil, ok := errNilTest(f.Cond)
				if !ok || f.Pol == trueMeansNonNil {
					continue
				}
				all := true
				vals := p.possibleValuesX(x)
				for _, pv := range vals {
					if !isDryErr(pv) && !isNilConst(pv) {
						all = false
					}
				}
				if all && len(vals) > 0 {
					errNil = true
				}
			}
			switch {
			case returnsErr:
				o.OK("returns the dry-run error")
			case hasViolation:
				o.OK("returns a violation")
			case errNil:
				o.OK("dry-run error known nil")
			default:
				o.Fail("this return can be taken although the server-side dry run failed, yet it reports neither a violation nor the error (returns %s, %s): an object the API server did not accept passes preflight and the phase is written", p.describe(rc.Results[0]), p.describe(rc.Results[1]))
			}
		}
	}
	if n == 0 {
		c.AnchorLost("preflight check issuing a client.DryRunAll write in " + pkgPreflight)
	}
}

const dryRunStatement = "every return of the server-side dry-run preflight check that can be taken after the dry-run write failed reports a violation or returns the error — a failed dry run never counts as accepted"

// ---------------------------------------------------------------------------------------------
// The class exemption of the namespace rule cannot apply inside the same-cluster phase controller
// (C11): NamespaceEscalation skips objects when the phase in its context has a class ("the plugin has
// the final say"); the ObjectSetPhase controller reconciles phases that all *have* a class, so the
// phase value it hands to the phase reconciler must not carry it.

func phaseClassExemptionRule(c *Ctx) {
	p := c.P
	n := 0
	for _, fn := range p.FuncsIn(pkgObjSetPhases) {
		if fn.Name() != "GetPhase" || fn.Signature.Recv() == nil || fn.Signature.Results().Len() != 1 {
			continue
		}
		if namedTypeString(fn.Signature.Results().At(0).Type()) != pkgCoreV1+".ObjectSetTemplatePhase" {
			continue
		}
		n++
		for _, rc := range p.returnCases(fn) {
			o := c.Ob(fn, "GetPhase-return", rc.Ret, c.rule.Statement)
			f, _, ok := compositeFields(rc.Results[0])
			if !ok {
				o.Unknown("returned phase is not a composite literal")
				continue
			}
			cls, has := f["Class"]
			if !has {
				o.OK("Class left empty")
				continue
			}
			if s, isConst := constString(cls); isConst && s == "" {
				o.OK("Class empty")
				continue
			}
			o.Fail("the phase handed to the phase reconciler carries Class=%s: NamespaceEscalation treats a phase with a class as delegated and skips the namespace/scope rule, so a namespaced ObjectSetPhase could write cluster-scoped or foreign-namespace objects", p.describe(cls))
		}
	}
	if n < 2 {
		c.AnchorLost("GetPhase() of the ObjectSetPhase adapters in " + pkgObjSetPhases)
	}
	// the exemption itself: located in the namespace check, keyed on phase.Class from the context
	found := false
	for _, fn := range p.FuncsIn(pkgPreflight) {
		for _, cc := range callsIn(fn) {
			if calleeName(cc.Common) == "phaseFromContext" && strings.Contains(shortFuncID(fn), "NamespaceEscalation") {
				found = true
			}
		}
	}
	o := c.Ob(nil, "class-exemption-site", nil, "the class exemption is read from the phase stored in the preflight context")
	if found {
		o.OK()
	} else {
		o.Unknown("phaseFromContext is no longer consulted by the namespace rule: re-triage this rule")
	}
}

const phaseClassStatement = "the phase value the ObjectSetPhase controller reconciles carries no class, so the namespace rule's exemption for delegated phases cannot switch the rule off for same-cluster ObjectSetPhases"

// ---------------------------------------------------------------------------------------------
// A failing probe is never reported without a message (C17): And treats "no messages collected" as
// success, so a prober returning (false, <empty>) would count as passing.

func failingProbeHasMessageRule(c *Ctx) {
	p := c.P
	n := 0
	for _, fn := range p.FuncsUnder(pkgProbing) {
		if fn.Parent() != nil {
			continue
		}
		res := fn.Signature.Results()
		if res.Len() != 2 || res.At(0).Type().String() != "bool" || res.At(1).Type().String() != "[]string" {
			continue
		}
		n++
		for _, rc := range p.returnCases(fn) {
			if fn.Recover != nil && rc.Ret.Block() == fn.Recover {
				continue
			}
			// can the first result be false?
			canFail := false
			for _, pv := range p.possibleValues(rc.Results[0]) {
				if b, ok := constBool(pv); !ok || !b {
					canFail = true
				}
			}
			if !canFail {
				continue
			}
			o := c.Ob(fn, "failing-return", rc.Ret, c.rule.Statement)
			ok := true
			why := ""
			// verdict computed as len(msgs)==0 of the very list returned: failure implies messages
			if x, nonEmptyWhenTrue, isLen := lenCmp(rc.Results[0]); isLen && !nonEmptyWhenTrue && p.sameValue(x, rc.Results[1]) {
				o.OK("verdict is len(messages)==0 of the returned list")
				continue
			}
			if p.emptinessFromFacts(rc.Facts, rc.Results[1]) == noTri {
				o.OK("messages known non-empty")
				continue
			}
			for _, mv := range p.possibleValues(rc.Results[1]) {
				mv = stripConv(mv)
				if elems, isLit := sliceElems(mv); isLit {
					if len(elems) == 0 {
						// nil / empty: acceptable only if the verdict is known true here
						if p.boolFromFacts(rc.Facts, rc.Results[0]) == yesTri {
							continue
						}
						ok, why = false, "returns no message"
					}
					continue
				}
				// pass-through of another prober's messages together with its verdict, or an accumulated list
				if call, idx := asCall(mv); call != nil {
					if idx == 1 {
						if vc, vi := asCall(rc.Results[0]); vc == call && vi == 0 {
							continue
						}
					}
					if isCallTo(call.Common(), "builtin:append") {
						continue
					}
				}
				if _, isPhi := mv.(*ssa.Phi); isPhi {
					// accumulated list: failing only when non-empty must be shown by facts
					if p.emptinessFromFacts(rc.Facts, mv) == noTri {
						continue
					}
				}
				if p.emptinessFromFacts(rc.Facts, mv) == noTri {
					continue
				}
				ok, why = false, "messages "+p.describe(mv)+" not shown to be non-empty"
			}
			if ok {
				o.OK()
			} else {
				o.Fail("a return that can report failure %s: the conjunction (And) decides success by 'no messages collected', so this failing probe would count as passed", why)
			}
		}
	}
	if n < 5 {
		c.AnchorLost(fmt.Sprintf("Probe-shaped functions (bool, []string) in %s: found %d", pkgProbing, n))
	}
}

const failingProbeStatement = "every return of a prober that can report failure carries at least one message (or passes through a sub-prober's verdict with its messages): And decides success by the absence of messages"

// ---------------------------------------------------------------------------------------------
// The write of the rendered target is unconditional (C18): the Update/Create of the templated object
// may depend only on error checks, existence (NotFound) and preflight violations — never on a
// comparison with the existing object, which would leave the target stale when a source changes to
// an empty/absent value.

func unconditionalTargetWriteRule(c *Ctx) {
	p := c.P
	n := 0
	for _, ws := range allWriterSites(p.FuncsIn(pkgObjTemplate)) {
		if ws.Verb != "Update" && ws.Verb != "Create" || ws.Class == "typed" {
			continue
		}
		fn := ws.Call.Fn
		n++
		o := c.Ob(fn, "target-"+ws.Verb, ws.Call.Instr, c.rule.Statement)
		var bad []string
		for _, f := range p.FactsAt(ws.Call.Instr.Block()) {
			if p.c18WriteGuardAllowed(f, 0) {
				continue
			}
			bad = append(bad, p.describeFact(f))
		}
		if len(bad) == 0 {
			o.OK()
		} else {
			o.Fail("the write of the rendered object is conditional on %s — a re-render that differs from the existing object only by an emptied or removed value could be skipped and the target would no longer equal the template rendered with the current sources", strings.Join(bad, "; "))
		}
	}
	if n < 2 {
		c.AnchorLost("Update/Create of the templated object in " + pkgObjTemplate)
	}
	// the cache-label patch of a source found only through the uncached reader
	nl := 0
	for _, fn := range p.FuncsIn(pkgObjTemplate) {
		for _, cc := range callsIn(fn) {
			if !isCallTo(cc.Common, pkgControllers+".AddDynamicCacheLabel") {
				continue
			}
			nl++
			o := c.Ob(fn, "source-cache-label", cc.Instr, "a source that is not served by the label-selected cache gets the cache label unconditionally (the selector requires the exact label value)")
			var bad []string
			for _, f := range p.FactsAt(cc.Instr.Block()) {
				if !p.c18WriteGuardAllowed(f, 0) {
					bad = append(bad, p.describeFact(f))
				}
			}
			if len(bad) == 0 {
				o.OK()
			} else {
				o.Fail("labelling the source for the cache is conditional on %s: a source that already carries the label key with another value never enters the informer, so later edits of it no longer re-render the template", strings.Join(bad, "; "))
			}
		}
	}
	if nl == 0 {
		c.AnchorLost("AddDynamicCacheLabel call in " + pkgObjTemplate)
	}
}

// applyEveryPassRule (C10 drift repair, C09 complement): the server-side apply of the desired object
// in the patcher is unconditional — guarded only by error checks, never by a comparison with the
// live object (a "skip if it already matches" shortcut hides drift that the comparison cannot see).
func applyEveryPassRule(c *Ctx) {
	p := c.P
	n := 0
	for _, fn := range p.FuncsIn(pkgControllers) {
		if fn.Signature.Recv() == nil || fn.Name() != "Patch" {
			continue
		}
		for _, ws := range allWriterSites([]*ssa.Function{fn}) {
			if ws.Verb != "Patch" {
				continue
			}
			n++
			o := c.Ob(fn, "apply-patch", ws.Call.Instr, c.rule.Statement)
			var bad []string
			for _, f := range p.FactsAt(ws.Call.Instr.Block()) {
				if !allowedWriteGuard(p, f) {
					bad = append(bad, p.describeFact(f))
				}
			}
			// and no early success return before the write that depends on such a comparison
			for _, rc := range p.returnCases(fn) {
				if canPrecede(rc.Ret, ws.Call.Instr) || rc.Ret.Block() == ws.Call.Instr.Block() {
					continue
				}
				last := rc.Results[len(rc.Results)-1]
				if !isNilConst(stripConv(last)) {
					continue
				}
				if canPrecede(ws.Call.Instr, rc.Ret) {
					continue // the normal success return after the write
				}
				for _, f := range rc.Facts {
					if !allowedWriteGuard(p, f) {
						bad = append(bad, "early success return at "+p.IPos(rc.Ret)+" under "+p.describeFact(f))
					}
				}
			}
			if len(bad) == 0 {
				o.OK()
			} else {
				o.Fail("the apply of the desired object is conditional on %s: drift the comparison does not see (emptied values, appended list entries) is never repaired", strings.Join(dedupe(bad), "; "))
			}
		}
	}
	if n == 0 {
		c.AnchorLost("Patch method issuing the server-side apply in " + pkgControllers)
	}
}

const applyEveryPassStatement = "the patcher applies the full desired object on every pass: the apply is guarded only by error checks, not by the outcome of comparing desired and live object"

func init() {
	addRule("C10", Rule{ID: "C10.R6", Min: 1, Statement: applyEveryPassStatement, Run: applyEveryPassRule})
}

func allowedWriteGuard(p *Program, f Fact) bool {
	return allowedWriteGuardD(p, f, 0)
}

func allowedWriteGuardD(p *Program, f Fact, depth int) bool {
	if _, _, ok := errNilTest(f.Cond); ok {
		return true
	}
	// a flag that merges constants and other allowed tests (a boolean result that travels through a
	// variable): the tests that decided it are facts of their own and judged separately
	if ph, ok := f.Cond.(*ssa.Phi); ok && depth < 4 {
		for _, e := range ph.Edges {
			if _, isConst := constBool(e); isConst {
				continue
			}
			if !allowedWriteGuardD(p, p.mkFact(e, true), depth+1) {
				return false
			}
		}
		return true
	}
	if _, _, ok := lenCmp(f.Cond); ok {
		return true
	}
	if call, _ := asCall(f.Cond); call != nil {
		switch calleeName(call.Common()) {
		case "IsNotFound", "IsAlreadyExists", "IsZero", "As", "Is", "IsNoMatchError":
			return true
		}
	}
	if b, ok := f.Cond.(*ssa.BinOp); ok && (b.Op == token.EQL || b.Op == token.NEQ) {
		// comparisons against constants of plain flags
		if _, ok := b.Y.(*ssa.Const); ok {
			if _, isCall := b.X.(*ssa.Call); !isCall {
				return true
			}
		}
	}
	if ex, ok := f.Cond.(*ssa.Extract); ok {
		// the `ok` of a range iteration: leaving a range loop by exhaustion is no condition on the write
		if _, isNext := ex.Tuple.(*ssa.Next); isNext && ex.Index == 0 {
			return true
		}
	}
	if _, ok := f.Cond.(*ssa.Extract); ok {
		// comma-ok / boolean second results of lookups
		if call, _ := asCall(f.Cond); call != nil {
			n := calleeName(call.Common())
			return n != "DeepEqual" && n != "DeepDerivative" && !strings.Contains(n, "Equal")
		}
	}
	return false
}

const targetWriteStatement = "the create/update of the templated object depends only on error checks, existence and preflight results — it is not skipped on the outcome of comparing the rendered object with the existing one"

func init() {
	addRule("C06", Rule{ID: "C06.R9", Min: 1, Statement: rvStatement, Run: rvOverwriteRule})
	addRule("C10", Rule{ID: "C10.R4", Min: 1, Statement: rvStatement, Run: rvOverwriteRule})
	addRule("C06", Rule{ID: "C06.R10", Min: 2, Statement: archivalStatement, Run: archivalBookkeepingRule})
	addRule("C10", Rule{ID: "C10.R5", Min: 2, Statement: archivalStatement, Run: archivalBookkeepingRule})
	addRule("C08", Rule{ID: "C08.R7", Min: 1, Statement: controllerOfStatement, Run: controllerOfCompleteRule})
	addRule("C06", Rule{ID: "C06.R11", Min: 1, Statement: controllerOfStatement, Run: controllerOfCompleteRule})
	addRule("C11", Rule{ID: "C11.R8", Min: 2, Statement: dryRunStatement, Run: dryRunVerdictRule})
	addRule("C11", Rule{ID: "C11.R9", Min: 3, Statement: phaseClassStatement, Run: phaseClassExemptionRule})
	addRule("C17", Rule{ID: "C17.R8", Min: 5, Statement: failingProbeStatement, Run: failingProbeHasMessageRule})
	addRule("C18", Rule{ID: "C18.R6", Min: 2, Statement: targetWriteStatement, Run: unconditionalTargetWriteRule})
}

// sliceLiteralLen: length of a slice literal / varargs slice (`slice (new [N]T)[:]`), 0 for nil.
func sliceLiteralLen(v ssa.Value) (int, bool) {
	v = stripConv(v)
	if c, ok := v.(*ssa.Const); ok && c.Value == nil {
		return 0, true
	}
	sl, ok := v.(*ssa.Slice)
	if !ok || sl.Low != nil || sl.High != nil {
		return 0, false
	}
	a, ok := sl.X.(*ssa.Alloc)
	if !ok {
		return 0, false
	}
	pt, ok := a.Type().Underlying().(*types.Pointer)
	if !ok {
		return 0, false
	}
	arr, ok := pt.Elem().Underlying().(*types.Array)
	if !ok {
		return 0, false
	}
	return int(arr.Len()), true
}

func lastPos(b *ssa.BasicBlock) token.Pos {
	for i := len(b.Instrs) - 1; i >= 0; i-- {
		if p := b.Instrs[i].Pos(); p.IsValid() {
			return p
		}
	}
	return token.NoPos
}
