// pkocheck: repository-specific static analysis of package-operator (see /verif/DESIGN.md).
package main

import (
	"encoding/json"
	"flag"
	"fmt"
	"os"
	"path/filepath"
	"sort"
	"strconv"
	"strings"
	"time"
)

func main() {
	var (
		propFlag  = flag.String("property", "", "property id (C01..C20) or 'all'")
		tier      = flag.String("tier", "quick", "quick | thorough")
		repo      = flag.String("repo", "/repo", "repository working tree to analyse")
		verifDir  = flag.String("verif", "", "verif directory (default: parent of the binary's directory)")
		evDir     = flag.String("evidence-dir", "", "where to write <id>.json (default <verif>/evidence)")
		knownPath = flag.String("known", "", "known findings file (default <verif>/known_findings.json)")
		overlayF  = flag.String("overlay", "", "JSON file {abs file: replacement file} — mutant self-test only")
		expect    = flag.String("expect", "", "self-test: comma separated obligation-key prefixes that must be violated (exit 0 iff so)")
		expectOK  = flag.Bool("expect-clean", false, "self-test: no violation may be reported for the property (benign variant)")
		dump      = flag.String("dump", "", "debug: print facts for function id substring")
		noMutants = flag.Bool("no-mutants", false, "thorough tier without the mutant self-test")
		verbose   = flag.Bool("v", false, "print every obligation")
		listP     = flag.Bool("list-properties", false, "print registered properties as JSON")
		crossB    = flag.String("cross-benign", "", "self-test: run benign variants (all, or those whose name contains the value) against ALL properties; exit 1 if any fires")
		scratchC  = flag.Bool("scratch-cache", false, "use a hard-link clone of the Go build cache that is removed on exit (for analysing scratch copies of the tree)")
		genA      = flag.String("gen-anchors", "", "write function fingerprints of the current tree to this file (run on the pinned tree only)")
		listS     = flag.Bool("list-stale", false, "debug: list stale-read lint hits")
		listW     = flag.Bool("list-writers", false, "debug: list controller-runtime writer call sites")
		explain   = flag.String("explain", "", "replay: print the violated obligations recorded in this evidence file, then re-run")
	)
	flag.Parse()
	if *scratchC {
		useScratchGoCache(*repo)
	}
	start := time.Now()
	if *listP {
		type pj struct {
			ID, Explanation, Technique string
			NotDecided                 []string
			Rules                      []string
			Mutants                    int
		}
		var out []pj
		for _, id := range sortedPropIDs() {
			pr := properties[id]
			x := pj{ID: id, Explanation: pr.Explanation, Technique: pr.Technique, NotDecided: pr.NotDecided}
			for _, r := range pr.Rules {
				x.Rules = append(x.Rules, r.ID+": "+r.Statement)
			}
			for _, m := range mutants {
				if m.Prop == id {
					x.Mutants++
				}
			}
			out = append(out, x)
		}
		b, _ := json.MarshalIndent(out, "", " ")
		fmt.Println(string(b))
		return
	}
	if *verifDir == "" {
		exe, err := os.Executable()
		if err == nil {
			*verifDir = filepath.Dir(filepath.Dir(exe))
		} else {
			*verifDir = "/verif"
		}
	}
	if *evDir == "" {
		*evDir = filepath.Join(*verifDir, "evidence")
	}
	if *knownPath == "" {
		*knownPath = filepath.Join(*verifDir, "known_findings.json")
	}
	if t := os.Getenv("VERIF_TIER"); t != "" && !flagSet("tier") {
		*tier = t
	}
	var seed int64
	if s := os.Getenv("VERIF_SEED"); s != "" {
		seed, _ = strconv.ParseInt(s, 10, 64)
	}
	if *explain != "" {
		printEvidenceViolations(*explain)
	}
	if *crossB != "" {
		useScratchGoCache(*repo)
		osExit(runCrossBenign(*repo, *verifDir, *crossB))
	}

	var ids []string
	switch {
	case *propFlag == "all":
		ids = sortedPropIDs()
	case *propFlag != "":
		for _, id := range strings.Split(*propFlag, ",") {
			if properties[id] == nil {
				fmt.Fprintf(os.Stderr, "unknown property %q (have %v)\n", id, sortedPropIDs())
				osExit(2)
			}
			ids = append(ids, id)
		}
	case *dump != "", *listW, *listS, *crossB != "", *genA != "":
	default:
		fmt.Fprintln(os.Stderr, "usage: pkocheck -property <id|all> [-tier quick|thorough]")
		osExit(2)
	}

	var overlay map[string][]byte
	if *overlayF != "" {
		b, err := os.ReadFile(*overlayF)
		if err != nil {
			fatal(ids, *evDir, "overlay: %v", err)
		}
		var m map[string]string
		if err := json.Unmarshal(b, &m); err != nil {
			fatal(ids, *evDir, "overlay: %v", err)
		}
		overlay = map[string][]byte{}
		for k, v := range m {
			c, err := os.ReadFile(v)
			if err != nil {
				fatal(ids, *evDir, "overlay: %v", err)
			}
			overlay[k] = c
		}
	}

	loadTier := "quick"
	needDeep := false
	if *tier == "thorough" {
		for _, id := range ids {
			for _, r := range properties[id].Rules {
				if r.Deep {
					needDeep = true
				}
			}
		}
	}
	if needDeep {
		loadTier = "deep"
	}
	prog, err := LoadNormalized(*repo, loadTier, overlay)
	if err != nil {
		if *expect != "" || *expectOK {
			fmt.Printf("SELFTEST not-applicable: %v\n", firstLine(err.Error()))
			osExit(3)
		}
		fatal(ids, *evDir, "load-failure: %v", err)
	}
	if *genA != "" {
		if err := genAnchors(prog, *genA); err != nil {
			fmt.Fprintln(os.Stderr, err)
			osExit(2)
		}
		if err := genDecls(prog, filepath.Join(filepath.Dir(*genA), "decls.json")); err != nil {
			fmt.Fprintln(os.Stderr, err)
			osExit(2)
		}
		return
	}
	for _, r := range prog.Renames {
		fmt.Println("note: rename tracked: " + r)
	}
	for _, r := range prog.Normalized {
		fmt.Println("note: normalised: " + r)
	}
	if *dump != "" {
		dumpFacts(prog, *dump)
		return
	}
	if *listS {
		for _, fn := range prog.productFuncs() {
			for _, su := range prog.staleUses(fn) {
				fmt.Printf("%s: read %s at %s; refreshed by %s; used at %s: %s\n", shortFuncID(fn), prog.describe(su.Read), prog.IPos(su.Read), prog.IPos(su.Refresh), prog.IPos(su.Use), su.Use.String())
			}
		}
		for _, fn := range prog.productFuncs() {
			if fn.Parent() != nil {
				continue
			}
			for _, lu := range prog.lostUpdates(fn) {
				fmt.Printf("LOST %s: %s at %s; refresh at %s; write at %s\n", shortFuncID(fn), lu.Setter, prog.IPos(lu.Set), prog.IPos(lu.Refresh), prog.IPos(lu.Write))
			}
		}
		return
	}
	if *listW {
		for _, ws := range allWriterSites(prog.productFuncs()) {
			fmt.Printf("%-14s %-8s %-60s %s  obj=%s\n", ws.Verb, ws.Class, shortFuncID(ws.Call.Fn), prog.IPos(ws.Call.Instr), prog.describe(ws.Obj))
		}
		return
	}
	known, err := loadKnown(*knownPath)
	if err != nil {
		fatal(ids, *evDir, "known findings file unreadable: %v", err)
	}

	exit := 0
	scratchOn := *scratchC
	for _, id := range ids {
		t0 := time.Now()
		prop := properties[id]
		res := runProperty(prog, prop, known, *tier)
		extra := map[string]any{}
		if *tier == "thorough" && !*noMutants && *expect == "" && !*expectOK && overlay == nil {
			if !scratchOn {
				useScratchGoCache(*repo)
				scratchOn = true
			}
			mres := runMutants(*repo, *verifDir, id)
			extra["mutants"] = mres
			for _, m := range mres.Failures {
				res.Violations = append(res.Violations, &Obligation{Rule: id + ".selftest", Key: id + ".selftest@" + m.Name, Site: m.File,
					Statement: "checker self-test: breaking mutants must be reported, benign variants must stay silent", Verdict: Violated, Detail: m.Outcome})
			}
		}
		wall := time.Since(t0).Seconds() + time.Since(start).Seconds()*0
		if len(ids) == 1 {
			wall = time.Since(start).Seconds()
		}
		evPath := filepath.Join(*evDir, id+".json")
		cmd := fmt.Sprintf("%s -property %s -tier %s", os.Args[0], id, *tier)
		if *expect == "" && !*expectOK && overlay == nil {
			if err := writeEvidence(evPath, res, prog, *tier, seed, wall, cmd, extra); err != nil {
				fmt.Fprintf(os.Stderr, "cannot write evidence: %v\n", err)
				exit = 1
			}
		}
		if *expectOK {
			// benign variant: accumulate over all requested properties
			if len(res.Violations) > 0 {
				for _, o := range res.Violations {
					fmt.Printf("SELFTEST fired %s: %s\n", o.Key, o.Detail)
				}
				exit = 1
			}
			continue
		}
		if *expect != "" {
			osExit(selfTestVerdict(res, *expect, *expectOK))
		}
		report(prog, res, evPath, *verbose)
		if len(res.Violations) > 0 {
			exit = 1
		}
	}
	if *expectOK && exit == 0 {
		fmt.Println("SELFTEST silent")
	}
	osExit(exit)
}

func flagSet(name string) bool {
	found := false
	flag.Visit(func(f *flag.Flag) {
		if f.Name == name {
			found = true
		}
	})
	return found
}

func firstLine(s string) string {
	if i := strings.IndexByte(s, '\n'); i >= 0 {
		return s[:i]
	}
	return s
}

func report(p *Program, res *Result, evPath string, verbose bool) {
	id := res.Prop.ID
	byRule := map[string][2]int{}
	for _, o := range res.Obls {
		x := byRule[o.Rule]
		x[0]++
		if o.Verdict == Discharged {
			x[1]++
		}
		byRule[o.Rule] = x
	}
	var rules []string
	for r := range byRule {
		rules = append(rules, r)
	}
	sort.Strings(rules)
	fmt.Printf("== %s: %d packages, %d functions analysed, %d obligations\n", id, len(p.Pkgs), res.Funcs, len(res.Obls))
	for _, r := range rules {
		fmt.Printf("   %-10s %d/%d discharged\n", r, byRule[r][1], byRule[r][0])
	}
	if verbose {
		for _, o := range res.Obls {
			fmt.Printf("   [%s] %s  %s\n        %s\n", o.Verdict, o.Key, o.Site, o.Statement)
			if len(o.Found) > 0 {
				fmt.Printf("        found: %s\n", strings.Join(o.Found, "; "))
			}
			if o.Detail != "" {
				fmt.Printf("        detail: %s\n", o.Detail)
			}
		}
	}
	seen := map[string]bool{}
	for _, k := range res.KnownHits {
		if seen[k.Key] {
			continue
		}
		seen[k.Key] = true
		fmt.Printf("KNOWN-FINDING: property=%s %s [%s] %s\n", id, k.Defect, k.Key, k.WhatFails)
	}
	for _, o := range res.Violations {
		fmt.Printf("  %s %s\n    at %s\n    rule: %s\n", strings.ToUpper(o.Verdict), o.Key, o.Site, o.Statement)
		if len(o.Required) > 0 {
			fmt.Printf("    required: %s\n", strings.Join(o.Required, "; "))
		}
		if len(o.Found) > 0 {
			fmt.Printf("    found: %s\n", strings.Join(o.Found, "; "))
		}
		if o.Detail != "" {
			fmt.Printf("    detail: %s\n", o.Detail)
		}
	}
	if len(res.Violations) > 0 {
		fmt.Printf("VIOLATION property=%s replay=%s\n", id, evPath)
	} else {
		fmt.Printf("OK property=%s\n", id)
	}
}

// fatal: a tree that cannot be analysed is not a tree on which the property was shown.
func fatal(ids []string, evDir string, format string, a ...any) {
	msg := fmt.Sprintf(format, a...)
	fmt.Fprintln(os.Stderr, "pkocheck: "+msg)
	if len(ids) == 0 {
		osExit(2)
	}
	for _, id := range ids {
		evPath := filepath.Join(evDir, id+".json")
		ev := evidence{PropertyID: id, Tier: "quick", Level: "other", Violations: 1,
			Coverage:    map[string]any{"explanation": "analysis could not run: " + msg, "evaluations": 0, "distinct_nontrivial": 0},
			Assumptions: trustedBase}
		b, _ := json.MarshalIndent(ev, "", " ")
		_ = os.MkdirAll(evDir, 0o755)
		_ = os.WriteFile(evPath, b, 0o644)
		fmt.Printf("VIOLATION property=%s replay=%s reason=%s\n", id, evPath, firstLine(msg))
	}
	osExit(1)
}

func selfTestVerdict(res *Result, expect string, expectClean bool) int {
	if expectClean {
		if len(res.Violations) == 0 {
			fmt.Println("SELFTEST silent")
			return 0
		}
		for _, o := range res.Violations {
			fmt.Printf("SELFTEST fired %s: %s\n", o.Key, o.Detail)
		}
		return 1
	}
	wants := strings.Split(expect, ",")
	ok := true
	for _, w := range wants {
		hit := false
		for _, o := range res.Violations {
			if strings.HasPrefix(o.Key, w) {
				hit = true
			}
		}
		if !hit {
			ok = false
			fmt.Printf("SELFTEST survived: expected violation with key prefix %q\n", w)
		}
	}
	for _, o := range res.Violations {
		fmt.Printf("SELFTEST reported %s [%s]: %s\n", o.Key, o.Verdict, o.Detail)
	}
	if ok {
		fmt.Println("SELFTEST killed")
		return 0
	}
	return 1
}

func printEvidenceViolations(path string) {
	b, err := os.ReadFile(path)
	if err != nil {
		fmt.Fprintf(os.Stderr, "explain: %v\n", err)
		return
	}
	var ev evidence
	if err := json.Unmarshal(b, &ev); err != nil {
		fmt.Fprintf(os.Stderr, "explain: %v\n", err)
		return
	}
	fmt.Printf("recorded run: property=%s tier=%s violations=%d\n", ev.PropertyID, ev.Tier, ev.Violations)
	if v, ok := ev.Coverage["violated"].([]any); ok {
		for _, o := range v {
			j, _ := json.MarshalIndent(o, "  ", " ")
			fmt.Printf("  %s\n", j)
		}
	}
	fmt.Println("re-running against the current tree:")
}

func dumpFacts(p *Program, sub string) {
	for _, fn := range p.Funcs {
		if !strings.Contains(funcID(fn), sub) {
			continue
		}
		fmt.Printf("FUNC %s\n", funcID(fn))
		for _, b := range fn.Blocks {
			fmt.Printf(" block %d (%s) preds=%v\n", b.Index, b.Comment, blockIdx(b.Preds))
			for _, f := range p.FactsAt(b) {
				fmt.Printf("    fact: %s   [%s]\n", p.describeFact(f), f.key)
			}
			for _, in := range b.Instrs {
				if v, ok := in.(interface{ Name() string }); ok {
					fmt.Printf("      %s = %s\n", v.Name(), in.String())
				} else {
					fmt.Printf("      %s\n", in.String())
				}
			}
		}
	}
}

func blockIdx(bs []*ssaBlock) []int {
	var out []int
	for _, b := range bs {
		out = append(out, b.Index)
	}
	return out
}
