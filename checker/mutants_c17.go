package main

import "strings"

func init() {
	const (
		prb  = "pkg/probing/probe.go"
		sel  = "pkg/probing/selectors.go"
		og   = "pkg/probing/observedgeneration.go"
		cnd  = "pkg/probing/condition.go"
		feq  = "pkg/probing/fieldsequal.go"
		celf = "pkg/probing/cel.go"
		prs  = "internal/probing/parse.go"
	)
	const ogIf = "\tif observedGeneration, ok, err := unstructured.NestedInt64(\n\t\tunstr.Object, \"status\", \"observedGeneration\",\n\t); err == nil && ok && observedGeneration != obj.GetGeneration() {\n\t\treturn false, []string{\".status outdated\"}\n\t}"
	const cndGen = "\t\t// Check the condition's observed generation, if set\n\t\tif observedGeneration, ok, err := unstructured.NestedInt64(\n\t\t\tcond, \"observedGeneration\",\n\t\t); err == nil && ok && observedGeneration != obj.GetGeneration() {\n\t\t\treturn false, \"outdated\"\n\t\t}\n"
	const cndStatus = "\t\tif cond[\"status\"] == cp.Status {\n\t\t\treturn true, \"\"\n\t\t}\n"
	const cndImport = "import (\n\t\"fmt\"\n"
	const cndImportSlices = "import (\n\t\"fmt\"\n\t\"slices\"\n"
	const cndLoop = "\tfor _, condI := range conditions {\n\t\tcond, ok := condI.(map[string]any)\n\t\tif !ok {\n\t\t\t// no idea what this is supposed to be\n\t\t\treturn false, \"malformed\"\n\t\t}\n\n" +
		"\t\tif cond[\"type\"] != cp.Type {\n\t\t\t// not the type we are probing for\n\t\t\tcontinue\n\t\t}\n\n" +
		cndGen + "\n" + cndStatus + "\t\treturn false, \"wrong status\"\n\t}\n\treturn false, \"not reported\"\n"
	const cndIndexFunc = "\ti := slices.IndexFunc(conditions, func(condI any) bool {\n\t\tcond, ok := condI.(map[string]any)\n\t\treturn !ok || cond[\"type\"] == cp.Type\n\t})\n" +
		"\tif i < 0 {\n\t\treturn false, \"not reported\"\n\t}\n\n\tcond, ok := conditions[i].(map[string]any)\n\tif !ok {\n\t\treturn false, \"malformed\"\n\t}\n\n" +
		"\tif observedGeneration, ok, err := unstructured.NestedInt64(\n\t\tcond, \"observedGeneration\",\n\t); err == nil && ok && observedGeneration != obj.GetGeneration() {\n\t\treturn false, \"outdated\"\n\t}\n\n" +
		"\tif cond[\"status\"] == cp.Status {\n\t\treturn true, \"\"\n\t}\n\treturn false, \"wrong status\"\n"
	const prsProbesDoc = "// ParseProbes takes a []corev1alpha1.Probe and compiles it into a Prober.\n"
	const prsSwitch = "\t\tvar (\n\t\t\tprobe probing.Prober\n\t\t\terr   error\n\t\t)\n\n\t\tswitch {\n" +
		"\t\tcase probeSpec.FieldsEqual != nil:\n\t\t\tprobe = &probing.FieldsEqualProbe{\n\t\t\t\tFieldA: probeSpec.FieldsEqual.FieldA,\n\t\t\t\tFieldB: probeSpec.FieldsEqual.FieldB,\n\t\t\t}\n\n" +
		"\t\tcase probeSpec.Condition != nil:\n\t\t\tprobe = &probing.ConditionProbe{\n\t\t\t\tType:   probeSpec.Condition.Type,\n\t\t\t\tStatus: probeSpec.Condition.Status,\n\t\t\t}\n\n" +
		"\t\tcase probeSpec.CEL != nil:\n\t\t\tprobe, err = probing.NewCELProbe(\n\t\t\t\tprobeSpec.CEL.Rule,\n\t\t\t\tprobeSpec.CEL.Message,\n\t\t\t)\n\t\t\tif err != nil {\n\t\t\t\treturn nil, err\n\t\t\t}\n\n" +
		"\t\tdefault:\n\t\t\t// probe has no known config\n\t\t\tcontinue\n\t\t}\n"
	const prsHelperCall = "\t\tprobe, known, err := c17tParseOne(probeSpec)\n\t\tif err != nil {\n\t\t\treturn nil, err\n\t\t}\n\t\tif !known {\n\t\t\tcontinue\n\t\t}\n"
	const prsHelper = "func c17tParseOne(probeSpec corev1alpha1.Probe) (probing.Prober, bool, error) {\n\tswitch {\n" +
		"\tcase probeSpec.FieldsEqual != nil:\n\t\treturn &probing.FieldsEqualProbe{\n\t\t\tFieldA: probeSpec.FieldsEqual.FieldA,\n\t\t\tFieldB: probeSpec.FieldsEqual.FieldB,\n\t\t}, true, nil\n" +
		"\tcase probeSpec.Condition != nil:\n\t\treturn &probing.ConditionProbe{\n\t\t\tType:   probeSpec.Condition.Type,\n\t\t\tStatus: probeSpec.Condition.Status,\n\t\t}, true, nil\n" +
		"\tcase probeSpec.CEL != nil:\n\t\tcelProbe, err := probing.NewCELProbe(probeSpec.CEL.Rule, probeSpec.CEL.Message)\n\t\tif err != nil {\n\t\t\treturn nil, false, err\n\t\t}\n\t\treturn celProbe, true, nil\n" +
		"\tdefault:\n\t\treturn nil, false, nil\n\t}\n}\n\n"
	// the same helper the way it comes out of an "extract the switch" refactoring: named results, the
	// probe assigned per case, the error test of the CEL case inside the helper, one shared success
	// return behind the switch (the construction of the CEL probe branches into the helper's error
	// return and its success return; after the merge only the tests of the merged results tell them apart)
	const prsHelperCall2 = "\t\tprober, known, err := c17tParseProbe(probeSpec)\n\t\tif err != nil {\n\t\t\treturn nil, err\n\t\t}\n\t\tif !known {\n\t\t\t// probe has no known config\n\t\t\tcontinue\n\t\t}\n\t\tprobe := prober\n"
	const prsHelper2 = "func c17tParseProbe(probeSpec corev1alpha1.Probe) (prober probing.Prober, known bool, err error) {\n\tswitch {\n" +
		"\tcase probeSpec.FieldsEqual != nil:\n\t\tprober = &probing.FieldsEqualProbe{\n\t\t\tFieldA: probeSpec.FieldsEqual.FieldA,\n\t\t\tFieldB: probeSpec.FieldsEqual.FieldB,\n\t\t}\n\n" +
		"\tcase probeSpec.Condition != nil:\n\t\tprober = &probing.ConditionProbe{\n\t\t\tType:   probeSpec.Condition.Type,\n\t\t\tStatus: probeSpec.Condition.Status,\n\t\t}\n\n" +
		"\tcase probeSpec.CEL != nil:\n\t\tprober, err = probing.NewCELProbe(\n\t\t\tprobeSpec.CEL.Rule,\n\t\t\tprobeSpec.CEL.Message,\n\t\t)\n\t\tif err != nil {\n\t\t\treturn nil, false, err\n\t\t}\n\n" +
		"\tdefault:\n\t\treturn nil, false, nil\n\t}\n\treturn prober, true, nil\n}\n\n"
	const prsEntry = "\t\tvar (\n\t\t\tprobe probing.Prober\n\t\t\terr   error\n\t\t)\n\t\tprobe, err = ParseProbes(ctx, pkgProbe.Probes)\n\t\tif err != nil {\n\t\t\treturn nil, fmt.Errorf(\"parsing probe #%d: %w\", i, err)\n\t\t}\n" +
		"\t\tprobe, err = ParseSelector(ctx, pkgProbe.Selector, probe)\n\t\tif err != nil {\n\t\t\treturn nil, fmt.Errorf(\"parsing selector of probe #%d: %w\", i, err)\n\t\t}\n"
	const prsEntryCall = "\t\tprobe, err := c17tParseEntry(ctx, i, pkgProbe)\n\t\tif err != nil {\n\t\t\treturn nil, err\n\t\t}\n"
	const prsEntryHelper = "func c17tParseEntry(ctx context.Context, index int, pkgProbe corev1alpha1.ObjectSetProbe) (probing.Prober, error) {\n" +
		"\tprobe, err := ParseProbes(ctx, pkgProbe.Probes)\n\tif err != nil {\n\t\treturn nil, fmt.Errorf(\"parsing probe #%d: %w\", index, err)\n\t}\n" +
		"\tprobe, err = ParseSelector(ctx, pkgProbe.Selector, probe)\n\tif err != nil {\n\t\treturn nil, fmt.Errorf(\"parsing selector of probe #%d: %w\", index, err)\n\t}\n\treturn probe, nil\n}\n\n"
	addMutants(
		// ---- R1 -------------------------------------------------------------------------------
		Mutant{Prop: "C17", Name: "r1-and-returns-at-first-failure", File: prb,
			Old:    "\t\t\tallMsgs = append(allMsgs, msgs...)\n",
			New:    "\t\t\treturn false, msgs\n",
			Expect: []string{"C17.R1@"}},
		Mutant{Prop: "C17", Name: "r1-and-keeps-last-failure-only", File: prb,
			Old:    "\t\t\tallMsgs = append(allMsgs, msgs...)\n",
			New:    "\t\t\tallMsgs = msgs\n",
			Expect: []string{"C17.R1@"}},
		Mutant{Prop: "C17", Name: "r1-and-probes-half-of-the-list", File: prb,
			Old:    "\tfor _, probe := range p {",
			New:    "\tfor _, probe := range p[:len(p)/2] {",
			Expect: []string{"C17.R1@"}},
		Mutant{Prop: "C17", Name: "r1-and-tolerates-one-failure", File: prb,
			Old:    "\tif len(allMsgs) > 0 {",
			New:    "\tif len(allMsgs) > 1 {",
			Expect: []string{"C17.R1@"}},
		Mutant{Prop: "C17", Name: "r1-and-stops-after-success", File: prb,
			Old:    "\t\t\tallMsgs = append(allMsgs, msgs...)\n\t\t}\n",
			New:    "\t\t\tallMsgs = append(allMsgs, msgs...)\n\t\t} else {\n\t\t\tbreak\n\t\t}\n",
			Expect: []string{"C17.R1@"}},
		Mutant{Prop: "C17", Name: "r1-benign-classic-for", File: prb, Benign: true,
			Old: "\tfor _, probe := range p {\n\t\tif success, msgs := probe.Probe(obj); !success {",
			New: "\tfor i := 0; i < len(p); i++ {\n\t\tif success, msgs := p[i].Probe(obj); !success {"},
		Mutant{Prop: "C17", Name: "r1-benign-continue-on-success", File: prb, Benign: true,
			Old: "\t\tif success, msgs := probe.Probe(obj); !success {\n\t\t\tallMsgs = append(allMsgs, msgs...)\n\t\t}\n",
			New: "\t\tsuccess, msgs := probe.Probe(obj)\n\t\tif success {\n\t\t\tcontinue\n\t\t}\n\t\tallMsgs = append(allMsgs, msgs...)\n"},
		Mutant{Prop: "C17", Name: "r1-benign-empty-test-first", File: prb, Benign: true,
			Old: "\tif len(allMsgs) > 0 {\n\t\treturn false, allMsgs\n\t}\n\treturn true, nil",
			New: "\tif len(allMsgs) == 0 {\n\t\treturn true, nil\n\t}\n\treturn false, allMsgs"},

		// ---- R2 -------------------------------------------------------------------------------
		Mutant{Prop: "C17", Name: "r2-kind-mismatch-fails", File: sel,
			Old:    "\treturn true, nil\n}\n\n// LabelSelector wraps",
			New:    "\treturn false, nil\n}\n\n// LabelSelector wraps",
			Expect: []string{"C17.R2@"}},
		Mutant{Prop: "C17", Name: "r2-label-selector-inverted", File: sel,
			Old:    "\tif !ss.Selector.Matches(",
			New:    "\tif ss.Selector.Matches(",
			Expect: []string{"C17.R2@"}},
		Mutant{Prop: "C17", Name: "r2-kind-selector-ignores-group", File: sel,
			Old:    "\tif kp.GroupKind == gk {",
			New:    "\tif kp.GroupKind.Kind == gk.Kind {",
			Expect: []string{"C17.R2@"}},
		Mutant{Prop: "C17", Name: "r2-label-selector-matches-annotations", File: sel,
			Old:    "labels.Set(obj.GetLabels())",
			New:    "labels.Set(obj.GetAnnotations())",
			Expect: []string{"C17.R2@"}},
		Mutant{Prop: "C17", Name: "r2-benign-kind-neq-early-return", File: sel, Benign: true,
			Old: "\tif kp.GroupKind == gk {\n\t\treturn kp.Prober.Probe(obj)\n\t}\n\n\t// We want to _skip_ objects, that don't match.\n\t// So this probe succeeds by default.\n\treturn true, nil\n}\n\n// LabelSelector wraps",
			New: "\tif gk != kp.GroupKind {\n\t\treturn true, nil\n\t}\n\treturn kp.Prober.Probe(obj)\n}\n\n// LabelSelector wraps"},
		Mutant{Prop: "C17", Name: "r2-benign-label-locals", File: sel, Benign: true,
			Old: "\tif !ss.Selector.Matches(labels.Set(obj.GetLabels())) {",
			New: "\tlbls := labels.Set(obj.GetLabels())\n\tif matches := ss.Selector.Matches(lbls); !matches {"},

		// ---- R3 -------------------------------------------------------------------------------
		Mutant{Prop: "C17", Name: "r3-generation-wrapper-dropped", File: prs,
			Old:    "\treturn &probing.ObservedGenerationProbe{Prober: probeList}, nil",
			New:    "\treturn probeList, nil",
			Expect: []string{"C17.R3@"}},
		Mutant{Prop: "C17", Name: "r3-missing-observedgeneration-fails", File: og,
			Old:    "); err == nil && ok && observedGeneration != obj.GetGeneration() {",
			New:    "); err == nil && (!ok || observedGeneration != obj.GetGeneration()) {",
			Expect: []string{"C17.R3@"}},
		Mutant{Prop: "C17", Name: "r3-stale-generation-only-noted", File: og,
			Old:    "\t\treturn false, []string{\".status outdated\"}",
			New:    "\t\t_ = []string{\".status outdated\"}",
			Expect: []string{"C17.R3@"}},
		Mutant{Prop: "C17", Name: "r3-only-newer-generation-is-stale", File: og,
			Old:    "observedGeneration != obj.GetGeneration()",
			New:    "observedGeneration > obj.GetGeneration()",
			Expect: []string{"C17.R3@"}},
		Mutant{Prop: "C17", Name: "r3-kind-selector-dropped-when-labels-set", File: prs,
			Old:    "\tif selector.Kind != nil {",
			New:    "\tif selector.Kind != nil && selector.Selector == nil {",
			Expect: []string{"C17.R3@"}},
		Mutant{Prop: "C17", Name: "r3-entries-stored-at-index-zero", File: prs,
			Old:    "\t\tprobeList[i] = probe",
			New:    "\t\tprobeList[0] = probe",
			Expect: []string{"C17.R3@"}},
		Mutant{Prop: "C17", Name: "r3-condition-probes-not-appended", File: prs,
			Old:    "\t\t\t\tStatus: probeSpec.Condition.Status,\n\t\t\t}\n",
			New:    "\t\t\t\tStatus: probeSpec.Condition.Status,\n\t\t\t}\n\t\t\tif probe != nil {\n\t\t\t\tcontinue\n\t\t\t}\n",
			Expect: []string{"C17.R3@"}},
		Mutant{Prop: "C17", Name: "r3-condition-probes-appended-conditionally", File: prs,
			Old:    "\t\tprobeList = append(probeList, probe)",
			New:    "\t\tif probeSpec.Condition == nil {\n\t\t\tprobeList = append(probeList, probe)\n\t\t}",
			Expect: []string{"C17.R3@"}},
		Mutant{Prop: "C17", Name: "r3-selector-of-first-entry-for-all", File: prs,
			Old:    "ParseSelector(ctx, pkgProbe.Selector, probe)",
			New:    "ParseSelector(ctx, packageProbes[0].Selector, probe)",
			Expect: []string{"C17.R3@"}},
		Mutant{Prop: "C17", Name: "r3-benign-wrapper-through-local", File: prs, Benign: true,
			Old: "\treturn &probing.ObservedGenerationProbe{Prober: probeList}, nil",
			New: "\twrapped := &probing.ObservedGenerationProbe{Prober: probeList}\n\treturn wrapped, nil"},
		Mutant{Prop: "C17", Name: "r3-benign-nested-ifs", File: og, Benign: true,
			Old: ogIf,
			New: "\tobservedGeneration, ok, err := unstructured.NestedInt64(unstr.Object, \"status\", \"observedGeneration\")\n\tif err == nil {\n\t\tif ok {\n\t\t\tif obj.GetGeneration() != observedGeneration {\n\t\t\t\treturn false, []string{\".status outdated\"}\n\t\t\t}\n\t\t}\n\t}"},
		Mutant{Prop: "C17", Name: "r3-benign-index-local", File: prs, Benign: true,
			Old: "\t\tprobeList[i] = probe",
			New: "\t\tselected := probe\n\t\tprobeList[i] = selected"},
		Mutant{Prop: "C17", Name: "r3-benign-selector-parser-else", File: prs, Benign: true,
			Old: "\t\ts, err := metav1.LabelSelectorAsSelector(selector.Selector)\n\t\tif err != nil {\n\t\t\treturn nil, err\n\t\t}\n\t\tprobe = &probing.LabelSelector{\n\t\t\tProber:   probe,\n\t\t\tSelector: s,\n\t\t}",
			New: "\t\ts, err := metav1.LabelSelectorAsSelector(selector.Selector)\n\t\tif err == nil {\n\t\t\tprobe = &probing.LabelSelector{Selector: s, Prober: probe}\n\t\t} else {\n\t\t\treturn nil, err\n\t\t}"},

		// extracted-helper shapes: the per-spec switch / the per-entry parser pair live in a new
		// unexported helper with several returns; the normaliser puts its body back at the call site,
		// where the results merge (one phi per result) and the known-flag / error tests follow the merge
		Mutant{Prop: "C17", Name: "r3-benign-probe-helper-known-flag", File: prs, Benign: true,
			Old: prsSwitch, New: prsHelperCall,
			More: []Edit{{File: prs, Old: prsProbesDoc, New: prsHelper + prsProbesDoc}}},
		Mutant{Prop: "C17", Name: "r3-probe-helper-reports-fieldsequal-unknown", File: prs,
			Old: prsSwitch, New: prsHelperCall,
			More: []Edit{{File: prs, Old: prsProbesDoc, New: strings.Replace(prsHelper,
				"FieldB: probeSpec.FieldsEqual.FieldB,\n\t\t}, true, nil", "FieldB: probeSpec.FieldsEqual.FieldB,\n\t\t}, false, nil", 1) + prsProbesDoc}},
			Expect: []string{"C17.R3@"}},
		Mutant{Prop: "C17", Name: "r3-probe-helper-cel-reported-unknown", File: prs,
			Old: prsSwitch, New: prsHelperCall,
			More: []Edit{{File: prs, Old: prsProbesDoc, New: strings.Replace(prsHelper,
				"return celProbe, true, nil", "return celProbe, false, nil", 1) + prsProbesDoc}},
			Expect: []string{"C17.R3@"}},
		Mutant{Prop: "C17", Name: "r3-probe-helper-known-test-inverted", File: prs,
			Old: prsSwitch, New: strings.Replace(prsHelperCall, "if !known {", "if known {", 1),
			More:   []Edit{{File: prs, Old: prsProbesDoc, New: prsHelper + prsProbesDoc}},
			Expect: []string{"C17.R3@"}},
		Mutant{Prop: "C17", Name: "r3-benign-probe-helper-shared-success-return", File: prs, Benign: true,
			Old: prsSwitch, New: prsHelperCall2,
			More: []Edit{{File: prs, Old: prsProbesDoc, New: prsHelper2 + prsProbesDoc}}},
		Mutant{Prop: "C17", Name: "r3-probe-helper-shared-return-cel-reported-unknown", File: prs,
			Old: prsSwitch, New: prsHelperCall2,
			More: []Edit{{File: prs, Old: prsProbesDoc, New: strings.Replace(prsHelper2,
				"\t\t\treturn nil, false, err\n\t\t}\n\n", "\t\t\treturn nil, false, err\n\t\t}\n\t\treturn prober, false, nil\n\n", 1) + prsProbesDoc}},
			Expect: []string{"C17.R3@"}},
		Mutant{Prop: "C17", Name: "r3-probe-helper-shared-return-condition-reported-unknown", File: prs,
			Old: prsSwitch, New: prsHelperCall2,
			More: []Edit{{File: prs, Old: prsProbesDoc, New: strings.Replace(prsHelper2,
				"\treturn prober, true, nil\n", "\treturn prober, probeSpec.Condition == nil, nil\n", 1) + prsProbesDoc}},
			Expect: []string{"C17.R3@"}},
		Mutant{Prop: "C17", Name: "r3-probe-helper-shared-return-cel-error-swallowed-as-unknown", File: prs,
			Old: prsSwitch, New: prsHelperCall2,
			More: []Edit{{File: prs, Old: prsProbesDoc, New: strings.Replace(prsHelper2,
				"\t\tif err != nil {\n\t\t\treturn nil, false, err\n\t\t}\n", "\t\tif err != nil || probeSpec.CEL.Message == \"\" {\n\t\t\treturn nil, false, nil\n\t\t}\n", 1) + prsProbesDoc}},
			Expect: []string{"C17.R3@"}},
		// the same helper kept as a call (a defer keeps the normaliser from merging it)
		Mutant{Prop: "C17", Name: "r3-benign-probe-helper-shared-return-not-merged", File: prs, Benign: true,
			Old: prsSwitch, New: prsHelperCall2,
			More: []Edit{{File: prs, Old: prsProbesDoc, New: strings.Replace(prsHelper2,
				"err error) {\n\tswitch {\n", "err error) {\n\tdefer func() { _ = known }()\n\tswitch {\n", 1) + prsProbesDoc}}},
		Mutant{Prop: "C17", Name: "r3-probe-helper-not-merged-cel-reported-unknown", File: prs,
			Old: prsSwitch, New: prsHelperCall2,
			More: []Edit{{File: prs, Old: prsProbesDoc, New: strings.Replace(strings.Replace(prsHelper2,
				"err error) {\n\tswitch {\n", "err error) {\n\tdefer func() { _ = known }()\n\tswitch {\n", 1),
				"\t\t\treturn nil, false, err\n\t\t}\n\n", "\t\t\treturn nil, false, err\n\t\t}\n\t\treturn prober, false, nil\n\n", 1) + prsProbesDoc}},
			Expect: []string{"C17.R3@"}},
		Mutant{Prop: "C17", Name: "r3-benign-entry-helper", File: prs, Benign: true,
			Old: prsEntry, New: prsEntryCall,
			More: []Edit{{File: prs, Old: prsProbesDoc, New: prsEntryHelper + prsProbesDoc}}},
		Mutant{Prop: "C17", Name: "r3-entry-helper-swallows-selector-error", File: prs,
			Old: prsEntry, New: prsEntryCall,
			More: []Edit{{File: prs, Old: prsProbesDoc, New: strings.Replace(prsEntryHelper,
				"return nil, fmt.Errorf(\"parsing selector of probe #%d: %w\", index, err)", "return probe, nil", 1) + prsProbesDoc}},
			Expect: []string{"C17.R3@"}},
		Mutant{Prop: "C17", Name: "r3-entry-helper-returns-unselected-prober", File: prs,
			Old: prsEntry, New: prsEntryCall,
			More: []Edit{{File: prs, Old: prsProbesDoc, New: strings.Replace(prsEntryHelper,
				"\tprobe, err = ParseSelector(ctx, pkgProbe.Selector, probe)", "\t_, err = ParseSelector(ctx, pkgProbe.Selector, probe)", 1) + prsProbesDoc}},
			Expect: []string{"C17.R3@"}},

		// ---- R4 -------------------------------------------------------------------------------
		Mutant{Prop: "C17", Name: "r4-status-compared-before-generation", File: cnd,
			Old:    cndGen + "\n" + cndStatus,
			New:    cndStatus + "\n" + cndGen,
			Expect: []string{"C17.R4@"}},
		Mutant{Prop: "C17", Name: "r4-condition-type-not-compared", File: cnd,
			Old:    "\t\tif cond[\"type\"] != cp.Type {",
			New:    "\t\tif cond[\"type\"] == nil {",
			Expect: []string{"C17.R4@"}},
		Mutant{Prop: "C17", Name: "r4-outdated-condition-accepted", File: cnd,
			Old:    "\t\t\treturn false, \"outdated\"",
			New:    "\t\t\t_ = \"outdated\"",
			Expect: []string{"C17.R4@"}},
		Mutant{Prop: "C17", Name: "r4-generation-of-other-field", File: cnd,
			Old:    "\t\t\tcond, \"observedGeneration\",",
			New:    "\t\t\tcond, \"generation\",",
			Expect: []string{"C17.R4@"}},
		Mutant{Prop: "C17", Name: "r4-benign-negated-status-test", File: cnd, Benign: true,
			Old: cndStatus + "\t\treturn false, \"wrong status\"",
			New: "\t\tif cp.Status != cond[\"status\"] {\n\t\t\treturn false, \"wrong status\"\n\t\t}\n\t\treturn true, \"\""},
		Mutant{Prop: "C17", Name: "r4-benign-nested-generation-test", File: cnd, Benign: true,
			Old: cndGen,
			New: "\t\tobservedGeneration, found, ogErr := unstructured.NestedInt64(cond, \"observedGeneration\")\n\t\tif ogErr == nil && found {\n\t\t\tif gen := obj.GetGeneration(); gen != observedGeneration {\n\t\t\t\treturn false, \"outdated\"\n\t\t\t}\n\t\t}\n"},

		// the search loop written with slices.IndexFunc and a predicate closure (the closure is judged
		// as the loop body), and ways of breaking that shape
		Mutant{Prop: "C17", Name: "r4-benign-search-by-indexfunc", File: cnd, Benign: true,
			Old: cndLoop, New: cndIndexFunc, More: []Edit{{File: cnd, Old: cndImport, New: cndImportSlices}}},
		Mutant{Prop: "C17", Name: "r4-indexfunc-predicate-matches-other-types", File: cnd,
			Old: cndLoop, New: strings.Replace(cndIndexFunc, "return !ok || cond[\"type\"] == cp.Type", "return !ok || cond[\"type\"] != cp.Type", 1),
			More:   []Edit{{File: cnd, Old: cndImport, New: cndImportSlices}},
			Expect: []string{"C17.R4@"}},
		Mutant{Prop: "C17", Name: "r4-indexfunc-predicate-compares-status-field", File: cnd,
			Old: cndLoop, New: strings.Replace(cndIndexFunc, "return !ok || cond[\"type\"] == cp.Type", "return !ok || cond[\"type\"] == cp.Status", 1),
			More:   []Edit{{File: cnd, Old: cndImport, New: cndImportSlices}},
			Expect: []string{"C17.R4@"}},
		Mutant{Prop: "C17", Name: "r4-indexfunc-other-element-evaluated", File: cnd,
			Old: cndLoop, New: strings.Replace(cndIndexFunc, "conditions[i].(map[string]any)", "conditions[len(conditions)-1-i].(map[string]any)", 1),
			More:   []Edit{{File: cnd, Old: cndImport, New: cndImportSlices}},
			Expect: []string{"C17.R4@"}},

		// ---- R5 -------------------------------------------------------------------------------
		Mutant{Prop: "C17", Name: "r5-missing-field-b-ignored", File: feq,
			Old:    "\tif err != nil || !ok {\n\t\treturn false, fmt.Sprintf(`\"%v\" missing`, fe.FieldB)",
			New:    "\tif err != nil {\n\t\treturn false, fmt.Sprintf(`\"%v\" missing`, fe.FieldB)",
			Expect: []string{"C17.R5@"}},
		Mutant{Prop: "C17", Name: "r5-field-a-compared-with-itself", File: feq,
			Old:    "\tfieldBPath := strings.Split(strings.Trim(fe.FieldB, \".\"), \".\")",
			New:    "\tfieldBPath := strings.Split(strings.Trim(fe.FieldA, \".\"), \".\")",
			Expect: []string{"C17.R5@"}},
		Mutant{Prop: "C17", Name: "r5-difference-only-noted", File: feq,
			Old:    "\t\treturn false, fmt.Sprintf(`\"%v\" != \"%v\"`, fieldAVal, fieldBVal)",
			New:    "\t\tmessage = fmt.Sprintf(`\"%v\" != \"%v\"`, fieldAVal, fieldBVal)",
			Expect: []string{"C17.R5@"}},
		Mutant{Prop: "C17", Name: "r5-benign-positive-equal-test", File: feq, Benign: true,
			Old: "\tif !equality.Semantic.DeepEqual(fieldAVal, fieldBVal) {\n\t\treturn false, fmt.Sprintf(`\"%v\" != \"%v\"`, fieldAVal, fieldBVal)\n\t}\n\treturn true, \"\"",
			New: "\tif equal := equality.Semantic.DeepEqual(fieldAVal, fieldBVal); equal {\n\t\treturn true, \"\"\n\t}\n\treturn false, fmt.Sprintf(`\"%v\" != \"%v\"`, fieldAVal, fieldBVal)"},
		Mutant{Prop: "C17", Name: "r5-benign-split-missing-tests", File: feq, Benign: true,
			Old: "\tif err != nil || !ok {\n\t\treturn false, fmt.Sprintf(`\"%v\" missing`, fe.FieldA)\n\t}",
			New: "\tif err != nil {\n\t\treturn false, fmt.Sprintf(`\"%v\" missing`, fe.FieldA)\n\t}\n\tif !ok {\n\t\treturn false, fmt.Sprintf(`\"%v\" missing`, fe.FieldA)\n\t}"},

		// ---- R6 -------------------------------------------------------------------------------
		Mutant{Prop: "C17", Name: "r6-bool-check-dropped", File: celf,
			Old:    "\tif ast.OutputType() != cel.BoolType {\n\t\treturn nil, ErrCELInvalidEvaluationType\n\t}",
			New:    "\t_ = ast.OutputType()",
			Expect: []string{"C17.R6@"}},
		Mutant{Prop: "C17", Name: "r6-checks-dyn-instead-of-bool", File: celf,
			Old:    "\tif ast.OutputType() != cel.BoolType {",
			New:    "\tif ast.OutputType() != cel.DynType {",
			Expect: []string{"C17.R6@"}},
		Mutant{Prop: "C17", Name: "r6-literal-in-parser", File: prs,
			Old:    "\t\t\tprobe, err = probing.NewCELProbe(\n\t\t\t\tprobeSpec.CEL.Rule,\n\t\t\t\tprobeSpec.CEL.Message,\n\t\t\t)",
			New:    "\t\t\tprobe, err = &probing.CELProbe{Message: probeSpec.CEL.Message}, nil",
			Expect: []string{"C17.R6@"}},
		Mutant{Prop: "C17", Name: "r6-benign-equal-else-form", File: celf, Benign: true,
			Old: "\tif ast.OutputType() != cel.BoolType {\n\t\treturn nil, ErrCELInvalidEvaluationType\n\t}",
			New: "\tif outType := ast.OutputType(); cel.BoolType == outType {\n\t\t_ = outType\n\t} else {\n\t\treturn nil, ErrCELInvalidEvaluationType\n\t}"},
		Mutant{Prop: "C17", Name: "r6-benign-literal-through-local", File: celf, Benign: true,
			Old: "\treturn &CELProbe{\n\t\tProgram: prgm,\n\t\tMessage: message,\n\t}, nil",
			New: "\tprobe := &CELProbe{Message: message, Program: prgm}\n\treturn probe, nil"},

		// ---- R7 -------------------------------------------------------------------------------
		Mutant{Prop: "C17", Name: "r7-nocopy-then-delete", File: feq,
			Old:    "\tfieldAVal, ok, err := unstructured.NestedFieldCopy(obj.Object, fieldAPath...)\n",
			New:    "\tfieldAVal, ok, err := unstructured.NestedFieldNoCopy(obj.Object, fieldAPath...)\n\tif m, isMap := fieldAVal.(map[string]any); isMap {\n\t\tdelete(m, \"managedFields\")\n\t}\n",
			Expect: []string{"C17.R7@"}},
		Mutant{Prop: "C17", Name: "r7-wrapper-strips-field", File: og,
			Old:    "\tunstr := toUnstructured(obj)\n",
			New:    "\tunstr := toUnstructured(obj)\n\tunstructured.RemoveNestedField(unstr.Object, \"metadata\", \"managedFields\")\n",
			Expect: []string{"C17.R7@"}},
		Mutant{Prop: "C17", Name: "r7-condition-map-annotated", File: cnd,
			Old:    "\t\tif cond[\"status\"] == cp.Status {",
			New:    "\t\tcond[\"lastProbed\"] = cp.Type\n\t\tif cond[\"status\"] == cp.Status {",
			Expect: []string{"C17.R7@"}},
		Mutant{Prop: "C17", Name: "r7-selector-marks-object", File: sel,
			Old:    "\tgk := obj.GetObjectKind().GroupVersionKind().GroupKind()\n",
			New:    "\tgk := obj.GetObjectKind().GroupVersionKind().GroupKind()\n\tobj.SetAnnotations(map[string]string{\"probed\": \"true\"})\n",
			Expect: []string{"C17.R7@"}},
		Mutant{Prop: "C17", Name: "r7-labels-map-written", File: sel,
			Old:    "\tif !ss.Selector.Matches(labels.Set(obj.GetLabels())) {",
			New:    "\tlbls := obj.GetLabels()\n\tif lbls != nil {\n\t\tlbls[\"probed\"] = \"true\"\n\t}\n\tif !ss.Selector.Matches(labels.Set(lbls)) {",
			Expect: []string{"C17.R7@"}},
		Mutant{Prop: "C17", Name: "r7-benign-copy-then-delete", File: feq, Benign: true,
			Old: "\tfieldAVal, ok, err := unstructured.NestedFieldCopy(obj.Object, fieldAPath...)\n",
			New: "\tfieldAVal, ok, err := unstructured.NestedFieldCopy(obj.Object, fieldAPath...)\n\tif m, isMap := fieldAVal.(map[string]any); isMap {\n\t\tdelete(m, \"managedFields\")\n\t}\n"},
		Mutant{Prop: "C17", Name: "r7-benign-extra-cel-binding", File: celf, Benign: true,
			Old: "\t\t\"self\": obj.Object,\n",
			New: "\t\t\"self\": obj.Object,\n\t\t\"kind\": obj.GetKind(),\n"},
	)
	// ---- round T: data-handling rewrites and a shared (value, found) lookup helper
	const tMake = "\tprobeList := make(probing.And, len(packageProbes))\n"
	const tStore = "\t\tprobeList[i] = probe\n"
	const tKindSel = "\t\tprobe = &probing.GroupKindSelector{\n\t\t\tProber: probe,\n\t\t\tGroupKind: schema.GroupKind{\n\t\t\t\tGroup: selector.Kind.Group,\n\t\t\t\tKind:  selector.Kind.Kind,\n\t\t\t},\n\t\t}\n"
	const tKindLocal = "\t\tgk := schema.GroupKind{\n\t\t\tGroup: selector.Kind.Group,\n\t\t\tKind:  selector.Kind.Kind,\n\t\t}\n"
	const tOgImport = "\t\"k8s.io/apimachinery/pkg/apis/meta/v1/unstructured\"\n"
	const tOgIfLookup = "\tif observedGeneration, found := c17tLookupGeneration(\n\t\tunstr.Object, \"status\", \"observedGeneration\",\n\t); found && observedGeneration != obj.GetGeneration() {\n\t\treturn false, []string{\".status outdated\"}\n\t}"
	const tCndGenLookup = "\t\t// Check the condition's observed generation, if set\n\t\tif observedGeneration, found := c17tLookupGeneration(\n\t\t\tcond, \"observedGeneration\",\n\t\t); found && observedGeneration != obj.GetGeneration() {\n\t\t\treturn false, \"outdated\"\n\t\t}\n"
	const tProbeTail = "\tif success {\n\t\treturn success, nil\n\t}\n\treturn success, []string{msg}\n}\n"
	tLookup := func(onMissing, onFound string) string {
		return tProbeTail + "\nfunc c17tLookupGeneration(content map[string]any, fields ...string) (observedGeneration int64, found bool) {\n" +
			"\tobservedGeneration, found, err := unstructured.NestedInt64(content, fields...)\n\tif err != nil {\n\t\treturn 0, false\n\t}\n" +
			"\tif !found {\n\t\treturn 0, " + onMissing + "\n\t}\n\treturn observedGeneration, " + onFound + "\n}\n"
	}
	tLookupEdits := func(onMissing, onFound string) []Edit {
		return []Edit{{File: og, Old: tOgImport, New: ""}, {File: cnd, Old: cndGen, New: tCndGenLookup}, {File: prb, Old: tProbeTail, New: tLookup(onMissing, onFound)}}
	}
	addMutants(
		Mutant{Prop: "C17", Name: "r3-benign-parse-collects-by-append", File: prs, Benign: true,
			Old:  tMake,
			New:  "\tprobeList := make(probing.And, 0, len(packageProbes))\n",
			More: []Edit{{File: prs, Old: tStore, New: "\t\tprobeList = append(probeList, probe)\n"}}},
		Mutant{Prop: "C17", Name: "r3-parse-appends-to-prefilled-list", File: prs,
			Old:    tStore,
			New:    "\t\tprobeList = append(probeList, probe)\n",
			Expect: []string{"C17.R3@internal/probing.Parse"}, Why: "the list starts with len(entries) nil probers: probing panics"},
		Mutant{Prop: "C17", Name: "r3-parse-append-skips-first-entries", File: prs,
			Old:    tMake,
			New:    "\tprobeList := make(probing.And, 0, len(packageProbes))\n",
			More:   []Edit{{File: prs, Old: tStore, New: "\t\tif len(pkgProbe.Probes) == 0 {\n\t\t\tcontinue\n\t\t}\n\t\tprobeList = append(probeList, probe)\n"}},
			Expect: []string{"C17.R3@internal/probing.Parse"}},
		Mutant{Prop: "C17", Name: "r3-parse-append-restarts-list", File: prs,
			Old:    tMake,
			New:    "\tprobeList := make(probing.And, 0, len(packageProbes))\n",
			More:   []Edit{{File: prs, Old: tStore, New: "\t\tprobeList = append(probeList[:0], probe)\n"}},
			Expect: []string{"C17.R3@internal/probing.Parse"}, Why: "only the last entry's prober survives"},
		Mutant{Prop: "C17", Name: "r3-benign-kind-selector-groupkind-local", File: prs, Benign: true,
			Old: tKindSel,
			New: tKindLocal + "\t\tprobe = &probing.GroupKindSelector{Prober: probe, GroupKind: gk}\n"},
		Mutant{Prop: "C17", Name: "r3-kind-selector-groupkind-local-group-cleared", File: prs,
			Old:    tKindSel,
			New:    tKindLocal + "\t\tgk.Group = \"\"\n\t\tprobe = &probing.GroupKindSelector{Prober: probe, GroupKind: gk}\n",
			Expect: []string{"C17.R3@internal/probing.ParseSelector"}},
		Mutant{Prop: "C17", Name: "r3-kind-selector-groupkind-local-kind-as-group", File: prs,
			Old:    tKindSel,
			New:    "\t\tvar gk schema.GroupKind\n\t\tgk.Group = selector.Kind.Kind\n\t\tgk.Kind = selector.Kind.Kind\n\t\tprobe = &probing.GroupKindSelector{Prober: probe, GroupKind: gk}\n",
			Expect: []string{"C17.R3@internal/probing.ParseSelector"}},
		Mutant{Prop: "C17", Name: "r3-benign-shared-generation-lookup-helper", File: og, Benign: true,
			Old: ogIf, New: tOgIfLookup, More: tLookupEdits("false", "true")},
		Mutant{Prop: "C17", Name: "r3-shared-lookup-reports-declared-as-absent", File: og,
			Old: ogIf, New: tOgIfLookup, More: tLookupEdits("false", "false"),
			Expect: []string{"C17.R3@", "C17.R4@"}, Why: "a declared observedGeneration is never compared: stale status passes"},
		Mutant{Prop: "C17", Name: "r3-shared-lookup-reports-missing-as-found", File: og,
			Old: ogIf, New: tOgIfLookup, More: tLookupEdits("true", "true"),
			Expect: []string{"C17.R3@"}, Why: "objects without observedGeneration are compared with 0 and fail"},
		Mutant{Prop: "C17", Name: "r4-shared-lookup-caller-compares-less-than", File: og,
			Old: ogIf, New: tOgIfLookup,
			More:   []Edit{{File: og, Old: tOgImport, New: ""}, {File: cnd, Old: cndGen, New: strings.Replace(tCndGenLookup, "observedGeneration != obj", "observedGeneration < obj", 1)}, {File: prb, Old: tProbeTail, New: tLookup("false", "true")}},
			Expect: []string{"C17.R4@"}},
	)
	// ---- shapes of corpus N* (round eight) --------------------------------------------------
	const uPaths = "\tfieldAPath := strings.Split(strings.Trim(fe.FieldA, \".\"), \".\")\n\tfieldBPath := strings.Split(strings.Trim(fe.FieldB, \".\"), \".\")\n\n"
	const uLookups = "\tfieldAVal, ok, err := unstructured.NestedFieldCopy(obj.Object, fieldAPath...)\n\tif err != nil || !ok {\n\t\treturn false, fmt.Sprintf(`\"%v\" missing`, fe.FieldA)\n\t}\n\tfieldBVal, ok, err := unstructured.NestedFieldCopy(obj.Object, fieldBPath...)\n\tif err != nil || !ok {\n\t\treturn false, fmt.Sprintf(`\"%v\" missing`, fe.FieldB)\n\t}\n\n\tif !equality.Semantic.DeepEqual(fieldAVal, fieldBVal) {\n\t\treturn false, fmt.Sprintf(`\"%v\" != \"%v\"`, fieldAVal, fieldBVal)\n\t}\n"
	const uKindTest = "\tgk := obj.GetObjectKind().GroupVersionKind().GroupKind()\n\tif kp.GroupKind == gk {\n"
	const uLabelSel = "\t\ts, err := metav1.LabelSelectorAsSelector(selector.Selector)\n\t\tif err != nil {\n\t\t\treturn nil, err\n\t\t}\n\t\tprobe = &probing.LabelSelector{\n\t\t\tProber:   probe,\n\t\t\tSelector: s,\n\t\t}\n"
	const uLabelSelCall = "\t\tlabelSelected, err := c17tSelectLabels(selector.Selector, probe)\n\t\tif err != nil {\n\t\t\treturn nil, err\n\t\t}\n\t\tprobe = labelSelected\n"
	addMutants(
		Mutant{Prop: "C17", Name: "r2-benign-kind-compared-fieldwise", File: sel, Benign: true,
			Old: uKindTest,
			New: "\tgvk := obj.GetObjectKind().GroupVersionKind()\n\tif kp.Group == gvk.Group && kp.Kind == gvk.Kind {\n"},
		Mutant{Prop: "C17", Name: "r2-kind-fieldwise-either-field", File: sel,
			Old:    uKindTest,
			New:    "\tgvk := obj.GetObjectKind().GroupVersionKind()\n\tif kp.Group == gvk.Group || kp.Kind == gvk.Kind {\n",
			Expect: []string{"C17.R2@"}, Why: "an object of another kind in the same group is probed"},
		Mutant{Prop: "C17", Name: "r2-kind-fieldwise-kind-against-group", File: sel,
			Old:    uKindTest,
			New:    "\tgvk := obj.GetObjectKind().GroupVersionKind()\n\tif kp.Group == gvk.Group && kp.Kind == gvk.Group {\n",
			Expect: []string{"C17.R2@"}},
		Mutant{Prop: "C17", Name: "r2-kind-fieldwise-group-only", File: sel,
			Old:    uKindTest,
			New:    "\tgvk := obj.GetObjectKind().GroupVersionKind()\n\tif kp.Group == gvk.Group && kp.Group != \"\" {\n",
			Expect: []string{"C17.R2@"}},
		Mutant{Prop: "C17", Name: "r3-benign-label-selector-helper", File: prs, Benign: true,
			Old:  uLabelSel,
			New:  uLabelSelCall,
			More: []Edit{{File: prs, Old: prsProbesDoc, New: "func c17tSelectLabels(labelSelector *metav1.LabelSelector, probe probing.Prober) (probing.Prober, error) {\n\ts, err := metav1.LabelSelectorAsSelector(labelSelector)\n\tif err != nil {\n\t\treturn nil, err\n\t}\n\treturn &probing.LabelSelector{\n\t\tProber:   probe,\n\t\tSelector: s,\n\t}, nil\n}\n\n" + prsProbesDoc}}},
		Mutant{Prop: "C17", Name: "r3-label-selector-helper-swallows-error", File: prs,
			Old:    uLabelSel,
			New:    uLabelSelCall,
			More:   []Edit{{File: prs, Old: prsProbesDoc, New: "func c17tSelectLabels(labelSelector *metav1.LabelSelector, probe probing.Prober) (probing.Prober, error) {\n\ts, err := metav1.LabelSelectorAsSelector(labelSelector)\n\tif err != nil {\n\t\treturn nil, nil\n\t}\n\treturn &probing.LabelSelector{\n\t\tProber:   probe,\n\t\tSelector: s,\n\t}, nil\n}\n\n" + prsProbesDoc}},
			Expect: []string{"C17.R3@internal/probing.ParseSelector"}, Why: "an invalid label selector yields a nil prober without an error"},
		Mutant{Prop: "C17", Name: "r3-label-selector-helper-bare-on-error", File: prs,
			Old:    uLabelSel,
			New:    uLabelSelCall,
			More:   []Edit{{File: prs, Old: prsProbesDoc, New: "func c17tSelectLabels(labelSelector *metav1.LabelSelector, probe probing.Prober) (probing.Prober, error) {\n\ts, err := metav1.LabelSelectorAsSelector(labelSelector)\n\tif err != nil {\n\t\treturn probe, nil\n\t}\n\treturn &probing.LabelSelector{\n\t\tProber:   probe,\n\t\tSelector: s,\n\t}, nil\n}\n\n" + prsProbesDoc}},
			Expect: []string{"C17.R3@internal/probing.ParseSelector"}, Why: "an invalid label selector silently selects every object"},
		Mutant{Prop: "C17", Name: "r5-benign-fields-in-array-loop", File: feq, Benign: true,
			Old:  uPaths,
			New:  "",
			More: []Edit{{File: feq, Old: uLookups, New: "\tfields := [2]string{fe.FieldA, fe.FieldB}\n\tvar vals [2]any\n\tfor i, field := range fields {\n\t\tpath := strings.Split(strings.Trim(field, \".\"), \".\")\n\t\tval, ok, err := unstructured.NestedFieldCopy(obj.Object, path...)\n\t\tif err != nil || !ok {\n\t\t\treturn false, fmt.Sprintf(`\"%v\" missing`, field)\n\t\t}\n\t\tvals[i] = val\n\t}\n\n\tif !equality.Semantic.DeepEqual(vals[0], vals[1]) {\n\t\treturn false, fmt.Sprintf(`\"%v\" != \"%v\"`, vals[0], vals[1])\n\t}\n"}}},
		Mutant{Prop: "C17", Name: "r5-array-loop-found-flag-ignored", File: feq,
			Old:    uPaths,
			New:    "",
			More:   []Edit{{File: feq, Old: uLookups, New: "\tfields := [2]string{fe.FieldA, fe.FieldB}\n\tvar vals [2]any\n\tfor i, field := range fields {\n\t\tpath := strings.Split(strings.Trim(field, \".\"), \".\")\n\t\tval, _, err := unstructured.NestedFieldCopy(obj.Object, path...)\n\t\tif err != nil {\n\t\t\treturn false, fmt.Sprintf(`\"%v\" missing`, field)\n\t\t}\n\t\tvals[i] = val\n\t}\n\n\tif !equality.Semantic.DeepEqual(vals[0], vals[1]) {\n\t\treturn false, fmt.Sprintf(`\"%v\" != \"%v\"`, vals[0], vals[1])\n\t}\n"}},
			Expect: []string{"C17.R5@"}},
		Mutant{Prop: "C17", Name: "r5-array-loop-missing-field-skipped", File: feq,
			Old:    uPaths,
			New:    "",
			More:   []Edit{{File: feq, Old: uLookups, New: "\tfields := [2]string{fe.FieldA, fe.FieldB}\n\tvar vals [2]any\n\tfor i, field := range fields {\n\t\tpath := strings.Split(strings.Trim(field, \".\"), \".\")\n\t\tval, ok, err := unstructured.NestedFieldCopy(obj.Object, path...)\n\t\tif err != nil || !ok {\n\t\t\tcontinue\n\t\t}\n\t\tvals[i] = val\n\t}\n\n\tif !equality.Semantic.DeepEqual(vals[0], vals[1]) {\n\t\treturn false, fmt.Sprintf(`\"%v\" != \"%v\"`, vals[0], vals[1])\n\t}\n"}},
			Expect: []string{"C17.R5@"}, Why: "a missing field leaves its element nil and is compared"},
		Mutant{Prop: "C17", Name: "r5-array-loop-same-element-compared", File: feq,
			Old:    uPaths,
			New:    "",
			More:   []Edit{{File: feq, Old: uLookups, New: "\tfields := [2]string{fe.FieldA, fe.FieldB}\n\tvar vals [2]any\n\tfor i, field := range fields {\n\t\tpath := strings.Split(strings.Trim(field, \".\"), \".\")\n\t\tval, ok, err := unstructured.NestedFieldCopy(obj.Object, path...)\n\t\tif err != nil || !ok {\n\t\t\treturn false, fmt.Sprintf(`\"%v\" missing`, field)\n\t\t}\n\t\tvals[i] = val\n\t}\n\n\tif !equality.Semantic.DeepEqual(vals[0], vals[0]) {\n\t\treturn false, fmt.Sprintf(`\"%v\" != \"%v\"`, vals[0], vals[1])\n\t}\n"}},
			Expect: []string{"C17.R5@"}},
		Mutant{Prop: "C17", Name: "r5-array-loop-same-path-twice", File: feq,
			Old:    uPaths,
			New:    "",
			More:   []Edit{{File: feq, Old: uLookups, New: "\tfields := [2]string{fe.FieldA, fe.FieldA}\n\tvar vals [2]any\n\tfor i, field := range fields {\n\t\tpath := strings.Split(strings.Trim(field, \".\"), \".\")\n\t\tval, ok, err := unstructured.NestedFieldCopy(obj.Object, path...)\n\t\tif err != nil || !ok {\n\t\t\treturn false, fmt.Sprintf(`\"%v\" missing`, field)\n\t\t}\n\t\tvals[i] = val\n\t}\n\n\tif !equality.Semantic.DeepEqual(vals[0], vals[1]) {\n\t\treturn false, fmt.Sprintf(`\"%v\" != \"%v\"`, vals[0], vals[1])\n\t}\n"}},
			Expect: []string{"C17.R5@"}},
		Mutant{Prop: "C17", Name: "r5-array-loop-stops-after-first", File: feq,
			Old:    uPaths,
			New:    "",
			More:   []Edit{{File: feq, Old: uLookups, New: "\tfields := [2]string{fe.FieldA, fe.FieldB}\n\tvar vals [2]any\n\tfor i, field := range fields {\n\t\tpath := strings.Split(strings.Trim(field, \".\"), \".\")\n\t\tval, ok, err := unstructured.NestedFieldCopy(obj.Object, path...)\n\t\tif err != nil || !ok {\n\t\t\treturn false, fmt.Sprintf(`\"%v\" missing`, field)\n\t\t}\n\t\tvals[i] = val\n\t\tbreak\n\t}\n\n\tif !equality.Semantic.DeepEqual(vals[0], vals[1]) {\n\t\treturn false, fmt.Sprintf(`\"%v\" != \"%v\"`, vals[0], vals[1])\n\t}\n"}},
			Expect: []string{"C17.R5@"}, Why: "only the first field is looked up"},
	)
}
