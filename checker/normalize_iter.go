package main

import (
	"fmt"
	"go/ast"
	"go/token"
	"go/types"
	"os"
	"sort"
	"strings"
)

// Normalisation pre-pass, part three: undo "range over a standard-library iterator".
//
// `for i, x := range slices.Backward(s) { … }` and its siblings (slices.All, slices.Values,
// maps.Keys, maps.Values, maps.All) are, by their definition in the standard library, the plain
// index / range loop over s. go/ssa compiles a range-over-func statement into a synthetic closure
// (`F$1`, the yield function) plus a call of the iterator and the "did not preserve panic" / "called
// after range loop exit" guards, so that the loop body, its guards, its index arithmetic and its
// returns leave the function every rule looks at. The rewrite below restores the loop the iterator
// is defined as; it is purely syntactic and applied only where it is exact:
//
//   - the iterator call is the range expression itself and resolves to the standard library function;
//   - slices.Backward: the loop variables are declared by the statement (`:=`) and the index variable
//     is neither assigned nor address-taken in the body (the three-clause loop would observe that,
//     the yield parameter does not); the slice expression is evaluated once — directly when it is a
//     local variable that the body does not assign or take the address of, otherwise through a
//     temporary in an enclosing block (not done for labelled statements);
//   - all others: only the range expression and the position of the variables change
//     (`range slices.Values(s)` yields the element as the first variable).
//
// An import that is left without uses is turned into a blank import. Lines are preserved.
func (p *Program) iterRangeOverlay(current map[string][]byte) (map[string][]byte, []string) {
	edits := map[string][]fileEdit{}
	var notes []string
	for _, pk := range p.Pkgs {
		if pk.Types == nil || isNonProductPkg(pk.PkgPath) {
			continue
		}
		for _, f := range pk.Syntax {
			fname := p.Fset.PositionFor(f.Pos(), false).Filename
			if strings.HasSuffix(fname, "_test.go") {
				continue
			}
			var src []byte
			getSrc := func() []byte {
				if src == nil {
					src = current[fname]
					if src == nil {
						src, _ = os.ReadFile(fname)
					}
				}
				return src
			}
			off := func(pos token.Pos) int { return p.Fset.PositionFor(pos, false).Offset }
			rewritten := map[*ast.Ident]bool{} // package identifiers inside removed iterator calls
			labelled := map[ast.Stmt]bool{}
			ast.Inspect(f, func(n ast.Node) bool {
				if ls, ok := n.(*ast.LabeledStmt); ok {
					labelled[ls.Stmt] = true
				}
				return true
			})
			var funcName string
			ast.Inspect(f, func(n ast.Node) bool {
				if fd, ok := n.(*ast.FuncDecl); ok {
					funcName = fd.Name.Name
				}
				rs, ok := n.(*ast.RangeStmt)
				if !ok {
					return true
				}
				call, ok := rs.X.(*ast.CallExpr)
				if !ok || len(call.Args) != 1 || call.Ellipsis.IsValid() {
					return true
				}
				sel, ok := call.Fun.(*ast.SelectorExpr)
				if !ok {
					return true
				}
				pkgID, ok := sel.X.(*ast.Ident)
				if !ok {
					return true
				}
				if _, isPkg := pk.TypesInfo.Uses[pkgID].(*types.PkgName); !isPkg {
					return true
				}
				fnObj, ok := pk.TypesInfo.Uses[sel.Sel].(*types.Func)
				if !ok || fnObj.Pkg() == nil {
					return true
				}
				which := fnObj.Pkg().Path() + "." + fnObj.Name()
				b := getSrc()
				if b == nil || off(rs.End()) > len(b) {
					return true
				}
				text := func(n ast.Node) string { return string(b[off(n.Pos()):off(n.End())]) }
				name := func(e ast.Expr) string { // "" = absent or blank
					if id, ok := e.(*ast.Ident); ok && id.Name != "_" {
						return id.Name
					}
					return ""
				}
				if (rs.Key != nil && name(rs.Key) == "" && !isBlank(rs.Key)) || (rs.Value != nil && name(rs.Value) == "" && !isBlank(rs.Value)) {
					return true // loop variables that are not plain identifiers (x.f, a[i])
				}
				arg := text(call.Args[0])
				hdrStart, hdrEnd := off(rs.For), off(rs.Body.Lbrace)+1
				pad := strings.Repeat("\n", strings.Count(string(b[hdrStart:hdrEnd]), "\n"))
				tok := rs.Tok.String()
				var hdr, tail string
				switch which {
				case "slices.All", "maps.All", "maps.Keys":
					switch {
					case rs.Key == nil:
						hdr = fmt.Sprintf("for range %s {", arg)
					case rs.Value == nil:
						hdr = fmt.Sprintf("for %s %s range %s {", text(rs.Key), tok, arg)
					default:
						if which == "maps.Keys" {
							return true
						}
						hdr = fmt.Sprintf("for %s, %s %s range %s {", text(rs.Key), text(rs.Value), tok, arg)
					}
				case "slices.Values", "maps.Values":
					switch {
					case rs.Key == nil:
						hdr = fmt.Sprintf("for range %s {", arg)
					case rs.Value == nil:
						hdr = fmt.Sprintf("for _, %s %s range %s {", text(rs.Key), tok, arg)
					default:
						return true
					}
				case "slices.Backward":
					if rs.Key != nil && rs.Tok != token.DEFINE {
						return true
					}
					idx := name(rs.Key)
					if idx != "" {
						if obj := pk.TypesInfo.Defs[rs.Key.(*ast.Ident)]; obj == nil || writtenIn(pk.TypesInfo, rs.Body, obj) {
							return true
						}
					} else {
						normalizeCounter++
						idx = fmt.Sprintf("pkoIt%d", normalizeCounter)
					}
					s := arg
					direct := false
					if id, ok := call.Args[0].(*ast.Ident); ok {
						if v, isVar := pk.TypesInfo.Uses[id].(*types.Var); isVar && v.Parent() != pk.Types.Scope() && !v.IsField() && !writtenIn(pk.TypesInfo, rs.Body, v) {
							direct = true
						}
					}
					pre := ""
					if !direct {
						if labelled[rs] {
							return true
						}
						normalizeCounter++
						s = fmt.Sprintf("pkoIt%d", normalizeCounter)
						pre = fmt.Sprintf("{ %s := %s; ", s, arg)
						tail = "}"
					}
					hdr = fmt.Sprintf("%sfor %s := len(%s) - 1; %s >= 0; %s-- {", pre, idx, s, idx, idx)
					if v := name(rs.Value); v != "" {
						hdr += fmt.Sprintf(" %s := %s[%s];", v, s, idx)
					}
				default:
					return true
				}
				edits[fname] = append(edits[fname], fileEdit{hdrStart, hdrEnd, hdr + pad})
				if tail != "" {
					edits[fname] = append(edits[fname], fileEdit{off(rs.End()), off(rs.End()), tail})
				}
				rewritten[pkgID] = true
				notes = append(notes, fmt.Sprintf("range over %s(%s) in %s rewritten as the loop it is defined as (%s)", which, arg, funcName, p.Pos(rs.For)))
				return true
			})
			if len(rewritten) == 0 {
				continue
			}
			// imports left without uses become blank imports
			remaining := map[types.Object]int{}
			ast.Inspect(f, func(n ast.Node) bool {
				if id, ok := n.(*ast.Ident); ok && !rewritten[id] {
					if pn, isPkg := pk.TypesInfo.Uses[id].(*types.PkgName); isPkg {
						remaining[pn]++
					}
				}
				return true
			})
			done := map[types.Object]bool{}
			for id := range rewritten {
				pn := pk.TypesInfo.Uses[id]
				if remaining[pn] > 0 || done[pn] {
					continue
				}
				done[pn] = true
				for _, is := range f.Imports {
					var obj types.Object
					if is.Name != nil {
						obj = pk.TypesInfo.Defs[is.Name]
					} else {
						obj = pk.TypesInfo.Implicits[is]
					}
					if obj != pn {
						continue
					}
					if is.Name != nil {
						edits[fname] = append(edits[fname], fileEdit{off(is.Name.Pos()), off(is.Name.End()), "_"})
					} else {
						edits[fname] = append(edits[fname], fileEdit{off(is.Path.Pos()), off(is.Path.Pos()), "_ "})
					}
				}
			}
		}
	}
	if len(edits) == 0 {
		return nil, nil
	}
	out := map[string][]byte{}
	for fname, es := range edits {
		src := current[fname]
		if src == nil {
			src, _ = os.ReadFile(fname)
		}
		// back to front; of two edits at the same offset the block-closing insert goes last in the text
		sort.SliceStable(es, func(i, j int) bool { return es[i].start > es[j].start })
		buf := string(src)
		for _, e := range es {
			if e.end > len(buf) {
				return nil, nil
			}
			buf = buf[:e.start] + e.text + buf[e.end:]
		}
		out[fname] = []byte(buf)
	}
	sort.Strings(notes)
	return out, notes
}

func isBlank(e ast.Expr) bool {
	id, ok := e.(*ast.Ident)
	return ok && id.Name == "_"
}

// writtenIn: inside body the variable obj is assigned, incremented/decremented, used as a range
// variable with `=`, or has its address taken (also implicitly, as the receiver of a pointer method).
func writtenIn(info *types.Info, body ast.Node, obj types.Object) bool {
	is := func(e ast.Expr) bool {
		for {
			switch x := e.(type) {
			case *ast.ParenExpr:
				e = x.X
				continue
			case *ast.Ident:
				return info.Uses[x] == obj
			}
			return false
		}
	}
	found := false
	ast.Inspect(body, func(n ast.Node) bool {
		switch x := n.(type) {
		case *ast.AssignStmt:
			for _, l := range x.Lhs {
				if is(l) {
					found = true
				}
			}
		case *ast.IncDecStmt:
			if is(x.X) {
				found = true
			}
		case *ast.RangeStmt:
			if x.Tok == token.ASSIGN && ((x.Key != nil && is(x.Key)) || (x.Value != nil && is(x.Value))) {
				found = true
			}
		case *ast.UnaryExpr:
			if x.Op == token.AND && is(x.X) {
				found = true
			}
		case *ast.SelectorExpr:
			// v.M() with a pointer receiver takes &v
			if is(x.X) {
				if s := info.Selections[x]; s != nil && s.Kind() == types.MethodVal {
					if sig, ok := s.Obj().Type().(*types.Signature); ok && sig.Recv() != nil {
						if _, isPtr := sig.Recv().Type().(*types.Pointer); isPtr {
							if _, recvIsPtr := s.Recv().(*types.Pointer); !recvIsPtr {
								found = true
							}
						}
					}
				}
			}
		}
		return !found
	})
	return found
}
