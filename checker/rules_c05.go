package main

import (
	"fmt"
	"sort"
	"strings"

	"golang.org/x/tools/go/ssa"
)

// C05 — Deletes hit only controlled objects, pinned to the inspected version.

func init() {
	register(&Property{
		ID: "C05",
		Explanation: "Decides the structural core of C05 on every path of the current source: every client Delete of a dynamic (unstructured) object in the " +
			"workspace is dominated by IsController(owner, x)=true for the very object x that an error-free uncached Get filled in this activation, " +
			"carries client.Preconditions{UID: x.GetUID(), ResourceVersion: x.GetResourceVersion()} of that same x, and x is not modified in between; " +
			"on the not-controller path the only write is a merge patch limited to metadata.labels[cache label] and metadata.ownerReferences under IsOwner; " +
			"every TeardownPhase call is behind the orphan-finalizer guard; there is no DeleteAllOf and no other dynamic Delete. " +
			"It does not decide what third parties do between Get and Delete (that is what the preconditions are sent for) nor that the API server enforces them.",
		NotDecided: []string{"API server enforcement of preconditions (trusted)", "interleavings with third parties between the inspected read and the delete",
			"behaviour of the owner strategies on concrete owner lists (trusted base)"},
		Technique: "SSA guard-dominance dataflow + value-identity classes + composite-literal/variadic resolution + whole-workspace who-may-delete enumeration",
		Rules: []Rule{
			{ID: "C05.R1", Min: 1, Run: c05r1, Statement: "every Delete of a dynamic object is guarded by IsController(owner, x) of the object x read by an error-free Get in this activation, and sends Preconditions{UID,ResourceVersion} taken from that x; x is not mutated between read and delete"},
			{ID: "C05.R2", Min: 2, Run: c05r2, Statement: "the inspected read uses the uncached reader: a reconciler field different from the watch cache and, at every constructor call site, wired from an argument different from the cache and from the (cache-backed) writer client"},
			{ID: "C05.R3", Min: 1, Run: c05r3, Statement: "where the owner is not the controller, the only write is a merge patch of metadata.labels[cache label]=null and metadata.ownerReferences (after RemoveOwner) under IsOwner; without IsOwner nothing is written"},
			{ID: "C05.R4", Min: 2, Run: c05r4, Statement: "every TeardownPhase call (local or delegated) is reachable only when the owner does not carry the 'orphan' finalizer"},
			{ID: "C05.R5", Min: 1, Run: c05r5, Statement: "closure: the workspace contains exactly the reviewed dynamic Delete sites and no DeleteAllOf outside the bootstrap fix"},
		},
	})
}

// isOwnerStrategyCall: invoke/static call named `name` with two args (owner, obj).
func ownerStrategyCall(c *ssa.CallCommon, name string) (owner, obj ssa.Value, ok bool) {
	if calleeName(c) != name {
		return nil, nil, false
	}
	a := callArgs(c)
	if len(a) != 2 {
		return nil, nil, false
	}
	return a[0], a[1], true
}

// isOwnerClientObject: v is `<param>.ClientObject()` (the owner handed to the phase reconciler).
func isOwnerClientObject(v ssa.Value) bool {
	call, _ := asCall(v)
	if call == nil || calleeName(call.Common()) != "ClientObject" {
		return false
	}
	r := stripConv(callRecv(call.Common()))
	_, isParam := r.(*ssa.Parameter)
	return isParam
}

// factIsController finds T/F:IsController(owner.ClientObject(), x) among facts.
func (p *Program) factOwnerTest(fs []Fact, method string, pol bool, x ssa.Value) bool {
	for _, f := range fs {
		if f.Pol != pol {
			continue
		}
		call, _ := asCall(f.Cond)
		if call == nil {
			continue
		}
		o, obj, ok := ownerStrategyCall(call.Common(), method)
		if !ok {
			continue
		}
		if isOwnerClientObject(o) && p.sameValue(obj, x) {
			return true
		}
	}
	return false
}

// inspectedRead finds the reader Get that filled x and whose error is known nil at block b.
func (p *Program) inspectedRead(fn *ssa.Function, x ssa.Value, fs []Fact) *ssa.Call {
	for _, c := range callsIn(fn) {
		call, ok := c.Instr.(*ssa.Call)
		if !ok || !isReaderGet(c.Common) {
			continue
		}
		if !p.sameValue(callArgs(c.Common)[2], x) {
			continue
		}
		if p.errOfCallIsNil(fs, call) {
			return call
		}
	}
	return nil
}

// c05DeleteContext checks the context conditions of a delete of x at `site` (a Delete call, or a
// call of a helper that deletes its parameter): IsController(owner, x) dominates, x was filled by an
// error-free Reader.Get, the controller test was evaluated after that read, and nothing modifies x
// between the read and the site. When x is a parameter of an unexported helper the conditions are
// established at every static call site instead (bounded depth).
func (p *Program) c05DeleteContext(fn *ssa.Function, site ssa.Instruction, x ssa.Value, depth int) (problems, notes []string) {
	if prm, isParam := stripConv(x).(*ssa.Parameter); isParam && depth > 0 {
		callers := p.callersOf(fn)
		if len(callers) > 0 && !p.addressTaken(fn) && fn.Object() != nil && !fn.Object().Exported() {
			idx := -1
			for i, pp := range fn.Params {
				if pp == prm {
					idx = i
				}
			}
			// nothing in the helper may modify the parameter before the delete
			for _, b := range fn.Blocks {
				for _, in := range b.Instrs {
					if in != site && p.mutatesObject(in, x) && canReach(site.Block())[in.Block()] {
						problems = append(problems, "helper "+shortFuncID(fn)+" modifies the object before deleting it at "+p.IPos(in))
					}
				}
			}
			for _, c := range callers {
				if idx < 0 || idx >= len(c.Common.Args) {
					problems = append(problems, "cannot map helper parameter at "+p.IPos(c.Instr))
					continue
				}
				pr, nt := p.c05DeleteContext(c.Fn, c.Instr, c.Common.Args[idx], depth-1)
				for _, q := range pr {
					problems = append(problems, "via "+shortFuncID(fn)+" called at "+p.IPos(c.Instr)+": "+q)
				}
				notes = append(notes, nt...)
			}
			return problems, notes
		}
	}
	fs := p.FactsAt(site.Block())
	var ctrl *ssa.Call
	for _, f := range fs {
		if !f.Pol {
			continue
		}
		call, _ := asCall(f.Cond)
		if call == nil {
			continue
		}
		o, obj, ok := ownerStrategyCall(call.Common(), "IsController")
		if ok && isOwnerClientObject(o) && p.sameValue(obj, x) {
			ctrl = call
		}
	}
	if ctrl == nil {
		problems = append(problems, "delete is not dominated by IsController(owner.ClientObject(), <deleted object>) == true")
	} else {
		notes = append(notes, "IsController(owner, x) dominates "+p.IPos(site))
	}
	get := p.inspectedRead(fn, x, fs)
	if get == nil {
		problems = append(problems, "deleted object is not the out-parameter of a Reader.Get whose error is known nil here")
		return problems, notes
	}
	notes = append(notes, "inspected by "+p.describe(get)+" at "+p.IPos(get))
	for _, in := range between(get, site) {
		if p.mutatesObject(in, x) {
			problems = append(problems, "object is modified (or re-read) between the inspected read and the delete at "+p.IPos(in)+" — the ownership test no longer describes what is deleted")
		}
	}
	if ctrl != nil && !p.mustPrecede(ctrl, func(in ssa.Instruction) bool { return in == ssa.Instruction(get) }) {
		problems = append(problems, "IsController was not evaluated after the inspected read")
	}
	return problems, notes
}

func c05r1(c *Ctx) {
	p := c.P
	for _, ws := range allWriterSites(p.productFuncs()) {
		if ws.Verb != "Delete" || ws.Class == "typed" {
			continue
		}
		fn := ws.Call.Fn
		site := ws.Call.Instr
		x := ws.Obj
		o := c.Ob(fn, "Delete", site, c.rule.Statement)
		o.Require("T:IsController(owner.ClientObject(), x)", "err==nil of Reader.Get(_, _, x)", "Preconditions.UID==ptr.To(x.GetUID())", "Preconditions.ResourceVersion==ptr.To(x.GetResourceVersion())", "no mutation of x between Get and Delete")
		problems, notes := p.c05DeleteContext(fn, site, x, 2)
		o.Note(notes...)
		// preconditions
		if !ws.OptsOK {
			problems = append(problems, "delete options are not a literal variadic list")
		}
		var pre map[string]ssa.Value
		for _, opt := range ws.Opts {
			ov := stripConv(opt)
			if namedTypeString(ov.Type()) == pkgClient+".Preconditions" {
				if f, _, ok := compositeFields(ov); ok {
					pre = f
				}
			}
		}
		if pre == nil {
			problems = append(problems, "no client.Preconditions literal among the delete options")
		} else {
			for _, fg := range [][2]string{{"UID", "GetUID"}, {"ResourceVersion", "GetResourceVersion"}} {
				field, getter := fg[0], fg[1]
				v, ok := pre[field]
				if !ok {
					problems = append(problems, "Preconditions."+field+" is not set")
					continue
				}
				if !p.isPtrToGetterOf(v, getter, x) {
					problems = append(problems, fmt.Sprintf("Preconditions.%s is %s, not ptr.To(x.%s()) of the inspected object", field, p.describe(v), getter))
				} else {
					o.Note("Preconditions." + field + " from inspected object")
				}
			}
			if _, dup := pre["UID#dup"]; dup {
				problems = append(problems, "Preconditions.UID stored twice")
			}
		}
		if len(problems) == 0 {
			o.OK()
		} else {
			o.Fail("%s", strings.Join(problems, "; "))
		}
	}
}

// isPtrToGetterOf: v == ptr.To(x.<getter>()) (or &tmp where tmp = x.<getter>()).
func (p *Program) isPtrToGetterOf(v ssa.Value, getter string, x ssa.Value) bool {
	call, _ := asCall(v)
	if call == nil {
		return false
	}
	if !isCallTo(call.Common(), "k8s.io/utils/ptr.To", "k8s.io/utils/pointer.String") || len(call.Common().Args) != 1 {
		return false
	}
	inner, _ := asCall(call.Common().Args[0])
	if inner == nil || calleeName(inner.Common()) != getter {
		return false
	}
	return p.sameValue(callRecv(inner.Common()), x)
}

// c05Contexts resolves a delete of a helper parameter to the call sites that supply the object.
type c05Ctx struct {
	fn   *ssa.Function
	site ssa.Instruction
	x    ssa.Value
}

func (p *Program) c05Contexts(fn *ssa.Function, site ssa.Instruction, x ssa.Value, depth int) []c05Ctx {
	if prm, isParam := stripConv(x).(*ssa.Parameter); isParam && depth > 0 {
		callers := p.callersOf(fn)
		if len(callers) > 0 && !p.addressTaken(fn) && fn.Object() != nil && !fn.Object().Exported() {
			idx := -1
			for i, pp := range fn.Params {
				if pp == prm {
					idx = i
				}
			}
			var out []c05Ctx
			for _, c := range callers {
				if idx >= 0 && idx < len(c.Common.Args) {
					out = append(out, p.c05Contexts(c.Fn, c.Instr, c.Common.Args[idx], depth-1)...)
				}
			}
			return out
		}
	}
	return []c05Ctx{{fn, site, x}}
}

func c05r2(c *Ctx) {
	p := c.P
	// (a) per dyn Delete site: receiver of the inspected Get is a field different from the Watch receiver
	for _, ws := range allWriterSites(p.productFuncs()) {
		if ws.Verb != "Delete" || ws.Class == "typed" {
			continue
		}
		for _, dc := range p.c05Contexts(ws.Call.Fn, ws.Call.Instr, ws.Obj, 2) {
			fn := dc.fn
			fs := p.FactsAt(dc.site.Block())
			get := p.inspectedRead(fn, dc.x, fs)
			o := c.Ob(fn, "inspected-read-receiver", dc.site, "the read that is inspected before a delete is not served by the informer cache")
			if get == nil {
				o.Fail("no inspected read found for the deleted object")
				continue
			}
			getRecv := p.key(callRecv(get.Common()))
			var watchRecv []string
			for _, cc := range callsIn(fn) {
				if calleeName(cc.Common) == "Watch" && cc.Common.IsInvoke() {
					watchRecv = append(watchRecv, p.key(cc.Common.Value))
				}
			}
			bad := false
			for _, w := range watchRecv {
				if w == getRecv {
					bad = true
				}
			}
			if bad {
				o.Fail("the inspected Get is invoked on %s, the same value the dynamic cache Watch is invoked on (informer cache, may be stale)", getRecv)
				continue
			}
			if !strings.Contains(getRecv, ".") {
				o.Unknown("receiver of the inspected read is not a reconciler field: %s", getRecv)
				continue
			}
			o.OK("Get on " + getRecv + "; Watch on " + strings.Join(watchRecv, ","))
			// (b) constructor wiring
			field := getRecv[strings.LastIndex(getRecv, ".")+1:]
			ctor := p.Func(pkgControllers, "NewPhaseReconciler")
			if ctor == nil {
				c.AnchorLost(pkgControllers + ".NewPhaseReconciler")
				continue
			}
			c.Visit(ctor)
			// which parameter feeds `field`, which feeds the Watch field and the writer?
			paramOf := map[string]int{}
			for _, b := range ctor.Blocks {
				for _, in := range b.Instrs {
					st, ok := in.(*ssa.Store)
					if !ok {
						continue
					}
					fa, ok := st.Addr.(*ssa.FieldAddr)
					if !ok {
						continue
					}
					if prm, ok := stripConv(st.Val).(*ssa.Parameter); ok {
						for i, pp := range ctor.Params {
							if pp == prm {
								paramOf[fieldName(fa.X.Type(), fa.Field)] = i
							}
						}
					}
				}
			}
			ri, ok := paramOf[field]
			if !ok {
				c.Ob(ctor, "field-"+field, nil, "constructor assigns the inspected-read field from a parameter").Fail("field %s is not assigned from a constructor parameter", field)
				continue
			}
			callers := p.callersOf(ctor)
			for _, call := range callers {
				if isNonProductPkg(funcPkgPath(call.Fn)) {
					continue
				}
				oo := c.Ob(call.Fn, "NewPhaseReconciler-wiring", call.Instr, "uncached reader argument differs from the cache and from the cache-backed client")
				args := call.Common.Args
				rk := p.key(args[ri])
				clash := ""
				for name, i := range paramOf {
					if i == ri || name == field {
						continue
					}
					if name == "scheme" || name == "ownerStrategy" || name == "preflightChecker" {
						continue
					}
					if p.key(args[i]) == rk {
						clash = name
					}
				}
				if clash != "" {
					oo.Fail("argument for %s (%s) is the same value as the argument for %s", field, rk, clash)
				} else {
					oo.OK("reader arg " + rk)
				}
			}
		}
	}
}

func c05r3(c *Ctx) {
	p := c.P
	// functions containing a dyn Delete: inspect every other writer in them
	seen := map[*ssa.Function]bool{}
	for _, ws := range allWriterSites(p.productFuncs()) {
		if ws.Verb == "Delete" && ws.Class != "typed" {
			for _, dc := range p.c05Contexts(ws.Call.Fn, ws.Call.Instr, ws.Obj, 2) {
				seen[dc.fn] = true
			}
		}
	}
	var fnList []*ssa.Function
	for fn := range seen {
		fnList = append(fnList, fn)
	}
	sort.Slice(fnList, func(i, j int) bool { return funcID(fnList[i]) < funcID(fnList[j]) })
	for _, fn := range fnList {
		// inlined view: the release patch may sit in an extracted helper of the teardown function; it is
		// judged at its real site with the facts imported from the helper's call sites
		for _, xw := range p.writerSitesX(fn) {
			ws := xw.WriterSite
			if ws.Verb == "Delete" {
				continue
			}
			site := ws.Call.Instr
			fs := p.FactsAtX(site.Block())
			o := c.Ob(fn, "coowner-"+ws.Verb, site, c.rule.Statement)
			if p.factOwnerTest(fs, "IsController", true, ws.Obj) {
				o.Fail("unexpected non-delete write on the controller path of a teardown function")
				continue
			}
			var problems []string
			if !p.factOwnerTest(fs, "IsController", false, ws.Obj) {
				problems = append(problems, "write is not on the IsController==false path for the written object")
			}
			if !p.factOwnerTest(fs, "IsOwner", true, ws.Obj) {
				problems = append(problems, "write is not guarded by IsOwner(owner, x) == true")
			}
			if ws.Verb != "Patch" {
				problems = append(problems, "write verb is "+ws.Verb+", only Patch is permitted for co-owned objects")
			} else {
				problems = append(problems, p.checkReleasePatch(ws)...)
			}
			if len(problems) == 0 {
				o.OK("merge patch limited to cache label + ownerReferences")
			} else {
				o.Fail("%s", strings.Join(problems, "; "))
			}
		}
	}
}

// checkReleasePatch verifies the shape of the co-owner release patch.
func (p *Program) checkReleasePatch(ws WriterSite) (problems []string) {
	args := callArgs(ws.Call.Common)
	if len(args) < 3 {
		return []string{"patch call has no patch argument"}
	}
	pc, _ := asCall(args[2])
	if pc == nil || !isCallTo(pc.Common(), pkgClient+".RawPatch") {
		return []string{"patch is not client.RawPatch(...)"}
	}
	if pt, ok := constString(pc.Common().Args[0]); !ok || pt != "application/merge-patch+json" {
		problems = append(problems, "patch type is not the merge patch type")
	}
	mc, idx := asCall(pc.Common().Args[1])
	if mc == nil || !isCallTo(mc.Common(), "encoding/json.Marshal") || idx != 0 {
		return append(problems, "patch body is not the result of json.Marshal")
	}
	top, ok := mapLiteral(mc.Common().Args[0])
	if !ok {
		return append(problems, "patch body is not a map literal with constant keys")
	}
	for k := range top {
		if k != "metadata" {
			problems = append(problems, "patch touches top-level key "+k)
		}
	}
	md, ok := mapLiteral(top["metadata"])
	if !ok {
		return append(problems, "metadata is not a map literal")
	}
	for k, v := range md {
		switch k {
		case "labels":
			lm, ok := mapLiteral(v)
			if !ok {
				problems = append(problems, "labels is not a map literal")
				continue
			}
			for lk, lv := range lm {
				if lk != "package-operator.run/cache" {
					problems = append(problems, "patch touches label "+lk)
				}
				if !isNilConst(stripConv(lv)) {
					problems = append(problems, "label "+lk+" is not removed (value not null)")
				}
			}
		case "ownerReferences":
			// value = tmp.GetOwnerReferences() where RemoveOwner(owner, tmp) and tmp.SetOwnerReferences(x.GetOwnerReferences()) precede
			gc, _ := asCall(v)
			if gc == nil || calleeName(gc.Common()) != "GetOwnerReferences" {
				problems = append(problems, "ownerReferences value is not read from an object")
				continue
			}
			tmp := callRecv(gc.Common())
			removed, seeded := false, false
			for _, cc := range callsIn(ws.Call.Fn) {
				if o, obj, ok := ownerStrategyCall(cc.Common, "RemoveOwner"); ok && isOwnerClientObject(o) && p.sameValue(obj, tmp) {
					if p.mustPrecede(gc, func(in ssa.Instruction) bool { return in == cc.Instr }) {
						removed = true
					}
				}
				if calleeName(cc.Common) == "SetOwnerReferences" && p.sameValue(callRecv(cc.Common), tmp) {
					src, _ := asCall(callArgs(cc.Common)[0])
					if src != nil && calleeName(src.Common()) == "GetOwnerReferences" && p.sameValue(callRecv(src.Common()), ws.Obj) {
						seeded = true
					}
				}
			}
			if !p.sameValue(tmp, ws.Obj) && !seeded {
				problems = append(problems, "ownerReferences are not derived from the inspected object's references")
			}
			if !removed {
				problems = append(problems, "RemoveOwner(owner, _) does not precede reading the ownerReferences for the patch")
			}
		default:
			problems = append(problems, "patch touches metadata."+k)
		}
	}
	return problems
}

func c05r4(c *Ctx) {
	p := c.P
	n := 0
	for _, fn := range p.productFuncs() {
		if pk := funcPkgPath(fn); pk != pkgObjectSets && pk != pkgObjSetPhases {
			continue
		}
		for _, call := range callsIn(fn) {
			name := calleeName(call.Common)
			if name != "TeardownPhase" && !(name == "Teardown" && call.Common.IsInvoke() && strings.Contains(calleeID(call.Common), "remotePhaseReconciler")) {
				continue
			}
			n++
			o := c.Ob(fn, "call-"+name, call.Instr, c.rule.Statement)
			ok, why := p.guardedInterproc(call.Instr, func(fs []Fact) bool {
				_, found := p.findFactCall(fs, false, []string{pkgCtrlUtil + ".ContainsFinalizer"}, func(cc *ssa.CallCommon) bool {
					return len(cc.Args) == 2 && isStringConst(cc.Args[1], "orphan")
				})
				return found
			}, 3)
			if ok {
				o.OK(why)
			} else {
				o.Fail("teardown of managed objects reachable without the orphan-finalizer guard: %s", why)
			}
		}
	}
}

func c05r5(c *Ctx) {
	p := c.P
	dynDeletes := 0
	for _, ws := range allWriterSites(p.productFuncs()) {
		switch {
		case ws.Verb == "DeleteAllOf":
			o := c.Ob(ws.Call.Fn, "DeleteAllOf", ws.Call.Instr, "DeleteAllOf only in the reviewed bootstrap CRD-pluralization fix (typed ClusterObjectSet)")
			if strings.HasPrefix(funcPkgPath(ws.Call.Fn), modPKO+"/cmd/package-operator-manager/bootstrap/fix") && ws.Class == "typed" {
				o.OK()
			} else {
				o.Fail("unreviewed DeleteAllOf")
			}
		case ws.Verb == "Delete" && ws.Class != "typed":
			dynDeletes++
			o := c.Ob(ws.Call.Fn, "dyn-Delete", ws.Call.Instr, "dynamic Delete only in the phase teardown function (checked by C05.R1)")
			if funcPkgPath(ws.Call.Fn) == pkgControllers {
				o.OK()
			} else {
				o.Fail("dynamic/unknown-typed Delete outside internal/controllers: not covered by the reviewed teardown path")
			}
		}
	}
}

func init() {
	// C05.R6: the UID / resourceVersion a delete is pinned to, and the ownership it was decided on, must
	// describe the version that was inspected — never a value read before the object was re-read.
	properties["C05"].Rules = append(properties["C05"].Rules, Rule{ID: "C05.R6", Min: 1, Statement: staleStatement, Run: staleRule(pkgControllers)})
}
