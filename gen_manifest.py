#!/usr/bin/env python3
"""Regenerates /verif/MANIFEST.json from the properties registered in the checker binary."""
import json, subprocess, os, sys
V = os.path.dirname(os.path.abspath(__file__))
props = json.loads(subprocess.check_output([V + "/bin/pkocheck", "-list-properties"]))
have = {p["ID"]: p for p in props}
all_ids = [json.loads(l)["id"] for l in open(V + "/properties.jsonl")]
na_reasons = json.load(open(V + "/not_applicable.json")) if os.path.exists(V + "/not_applicable.json") else {}
checks, na = [], []
for pid in all_ids:
    if pid in have and pid not in na_reasons:
        p = have[pid]
        checks.append({
            "property_id": pid,
            "quick_cmd": f"/verif/check.sh {pid} quick",
            "thorough_cmd": f"/verif/check.sh {pid} thorough",
            "evidence_file": f"/verif/evidence/{pid}.json",
            "replay_cmd_template": f"/verif/bin/pkocheck -property {pid} -tier quick -explain {{path}}",
            "engine": "pkocheck",
            "level_claimed": {
                "category": "other",
                "text": "Static analysis of the current source (typed SSA form): decides a named structural necessary condition of the property on "
                        "every path of the anchored code and every call site in the workspace, not the run-time behaviour itself. " + p["Explanation"]
                        + " Rules decided by this check (%d): " % len(p["Rules"]) + " | ".join(p["Rules"]),
                "design_ref": f"DESIGN.md section 3, {pid}",
            },
            "level_note": "Trusted: go/types + go/ssa (x/tools v0.29.0); controller-runtime client and Kubernetes API-server semantics; boxcutter owner "
                          "strategies; accessor purity (zero-arg Get*/Is* methods). Not decided: " + "; ".join(p["NotDecided"]),
            "technique": "static analysis: " + p["Technique"],
        })
    else:
        na.append({"property_id": pid, "reason": na_reasons.get(pid, "no static check built yet for this property in this round (design in DESIGN.md section 3); not claimed until it exists")})
m = {
    "version": 1,
    "setup_cmd": "cd /verif/checker && env -u GOTOOLCHAIN GOFLAGS=-mod=mod GOWORK=off GOPROXY=off GOSUMDB=off go build -o /verif/bin/pkocheck . && (cd /repo && env -u GOFLAGS -u GOWORK -u GOSUMDB -u GOTOOLCHAIN GOPROXY=off go build ./... ; true)",
    "hooks": {
        "guard": "verif",
        "enable": "none needed: static analysis reads /repo's source; no hooks or instrumentation are compiled in (no file in /repo carries the tag)",
        "baseline_off_cmd": "for m in . ./apis ./pkg; do (cd /repo/$m && env -u GOFLAGS -u GOWORK -u GOSUMDB -u GOTOOLCHAIN GOPROXY=off go test -vet=off -count=1 -timeout 25m ./...) || exit 1; done",
        "source_commits": [],
        "add_only": True,
    },
    "engines": [{
        "name": "pkocheck",
        "path": "/verif/checker",
        "serves_properties": [c["property_id"] for c in checks],
        "kind_free_text": "repository-specific static analyser (go/packages + go/ssa): guard-dominance dataflow, value identity, return classification, who-may-write, lockset, typestate, map-order and crash lints; overlay-mutant self-test in the thorough tier",
    }],
    "checks": checks,
    "not_applicable": na,
    "notes": "All checks are static: nothing from /repo is executed. Every check reloads /repo's working tree. Known findings live in /verif/known_findings.json.",
}
json.dump(m, open(V + "/MANIFEST.json", "w"), indent=1)
print(f"{len(checks)} checks, {len(na)} not applicable")
