#!/bin/sh
# usage: check.sh <property-id> <quick|thorough>
# Rebuilds the checker if needed, then analyses /repo's current working tree (nothing in /repo is executed).
set -u
VERIF="$(cd "$(dirname "$0")" && pwd)"
ID="$1"; TIER="${2:-${VERIF_TIER:-quick}}"
BIN="$VERIF/bin/pkocheck"
need=0
[ -x "$BIN" ] || need=1
if [ $need -eq 0 ]; then
  for f in "$VERIF"/checker/*.go "$VERIF"/checker/*.json "$VERIF"/checker/go.mod; do
    [ "$f" -nt "$BIN" ] && need=1 && break
  done
fi
if [ $need -eq 1 ]; then
  mkdir -p "$VERIF/bin"
  (cd "$VERIF/checker" && env -u GOTOOLCHAIN GOFLAGS=-mod=mod GOWORK=off GOPROXY=off GOSUMDB=off go build -o "$BIN.tmp.$$" . && mv "$BIN.tmp.$$" "$BIN") || {
    echo "VIOLATION property=$ID replay=$VERIF/evidence/$ID.json reason=checker-build-failed"; exit 1; }
fi
exec "$BIN" -property "$ID" -tier "$TIER" -repo "${VERIF_REPO:-/repo}" -verif "$VERIF"
